/* C24: SuppressionList::updateSuppressionState (verbatim tail): the per-worker state is OR-ed into the parent's entry */
#define LL_ARENA_PTR_CELLS 16
#include "harness.h"
void harness(void) {
  uint8_t c1 = in_range(0, 1), m1 = in_range(0, 1), c2 = in_range(0, 1), m2 = in_range(0, 1);
  unsigned r = k_merge(c1, m1, c2, m2);
  H_OUT("r", r);
  H_ASSERT(!__exc_pending, "no exception");
  H_ASSERT(r & 1, "an existing entry is updated");
  H_ASSERT(((r >> 1) & 1) == (unsigned)(c1 | c2), "checked is the OR of both states");
  H_ASSERT(((r >> 2) & 1) == (unsigned)(m1 | m2), "matched is the OR of both states: a match seen by one worker is never erased by another");
  H_WITNESS(!(m1 && !m2), "a later worker that did not match is reachable");
  H_WITNESS(0, "end of harness reachable");
}
