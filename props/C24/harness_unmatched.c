/* C24: the per-suppression filters of the three getUnmatched*Suppressions functions (verbatim loop bodies) */
#define LL_ARENA_PTR_CELLS 64
#include "harness.h"
enum { T_MACRO = 5 };
#define NO_LINE (-1)
void harness(void) {
  uint8_t isInline = in_range(0, 1), matched = in_range(0, 1), checked = in_range(0, 1), pm = in_range(0, 1);
  int lineNumber = (int)in_u32(); int type = (int)in_range(0, 5); uint64_t hash = in_u64();
  int idKind = (int)in_range(0, 2), fileKind = (int)in_range(0, 2);
  __CPROVER_assume(lineNumber >= NO_LINE);
  unsigned r = k_unmatched(isInline, matched, checked, lineNumber, type, hash, idKind, fileKind, pm);
  H_OUT("r", r);
  H_ASSERT(!__exc_pending, "no exception");
  unsigned loc = r & 0xf, glo = (r >> 4) & 0xf, inl = (r >> 8) & 0xf;
  int isLocal = (fileKind == 1), isWild = (fileKind == 2);
  H_ASSERT(!matched || (loc + glo + inl == 0), "a suppression that matched is never reported as unmatched");
  H_ASSERT(loc + glo + inl <= 1, "a suppression is reported by at most one of the three lists");
  H_ASSERT(!(hash > 0) || (loc + glo + inl == 0), "hash suppressions are never reported as unmatched");
  H_ASSERT(!(idKind == 2 && !isInline) || (loc + glo == 0), "the checkersReport pseudo id is never reported as unmatched");
  H_ASSERT(!inl || isInline, "the inline list holds only inline suppressions");
  H_ASSERT(!(loc || glo) || !isInline, "the file-local and global lists hold no inline suppressions");
  H_ASSERT(!loc || (isLocal && pm), "the file-local list holds only suppressions whose (wildcard-free) file name matches the file");
  H_ASSERT(!glo || !isLocal, "the global list holds no file-local suppressions");
  /* completeness for the plain case: applied to analysed code (checked), matched nothing, no hash, not a macro/checkersReport entry */
  if (!matched && checked && hash == 0 && type != T_MACRO && idKind != 2) {
    if (isInline) H_ASSERT(inl == 1, "a checked unmatched inline suppression is reported");
    else if (isLocal && pm) H_ASSERT(loc == 1, "a checked unmatched file-local suppression is reported for its file");
    else if (!isLocal) H_ASSERT(glo == 1, "a checked unmatched global/wildcard suppression is reported");
  }
  H_WITNESS(!(loc == 1), "a file-local report is reachable");
  H_WITNESS(!(glo == 1 && isWild), "a wildcard report is reachable");
  H_WITNESS(!(inl == 1), "an inline report is reachable");
  H_WITNESS(0, "end of harness reachable");
}
