from vlib import Unit, Obl
OPS = ["+","-","*","/","%","&","|","^","<",">","<<",">>","&&","||","==","!=",">=","<=","<=>"]
NAMES = ['add','sub','mul','div','rem','and','or','xor','lt','gt','shl','shr','land','lor','eq','ne','ge','le','cmp3']
UNITS = {
    'c01_calc': Unit('c01_calc', wrapper='props/C01/wrap_calc.cpp', libs=['lib/vf_common.cpp', 'lib/errortypes.cpp', 'lib/mathlib.cpp'], roots=['k_calc', 'k_trunc']),
}
META = {
    'assumptions': ['calculate: the C expression x op y is free of signed overflow at 64 bit (precondition of +,-,*,<=>)',
                    'stubs: operator new (typed arena), __cxa_throw model, std::string SSO fabricated in the harness'],
    'outside': 'which values reach these kernels (forward/reverse analysis, program memory, pass pipeline, symbolic values, containers) is outside the claim',
}
def obligations(tier):
    o = []
    for k, (op, nm) in enumerate(zip(OPS, NAMES)):
        be = 'z3' if op in '*/%' else 'sat'
        o.append(Obl('calc.' + nm, 'c01_calc', 'props/C01/harness_calc.c',
                     "calculate('%s') without *error == C semantics of x %s y on int64" % (op, op), 'all x,y : int64 (full width)',
                     defines={'OPK': k}, backend=be, timeout=300, tv_vectors=300))
    o.append(Obl('truncate', 'c01_calc', 'props/C01/harness_trunc.c', 'truncateIntValue == C integer conversion', 'all v:int64, size 0..8, all signs',
                 backend='sat', timeout=120))
    return o
MANIFEST = {
    'text': 'Bounded model checking (full 64-bit width, no loops) of the arithmetic kernels every value-flow fact rests on: calculate<bigint> for all 19 operators, truncateIntValue, compiled from the working tree to LLVM IR and executed symbolically; verdict = C semantics for every operand pair. Kernel-level: the propagation machinery is outside.',
    'note': 'Trusted: clang-14, ll2c.py (validated natively every run), stubs.h, CBMC 6.11 with MiniSat / Z3 4.8.12 for * / %. Precondition: no signed overflow in the analysed expression.',
}
