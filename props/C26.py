"""C26 -- reports are faithful: XML escaping (kernel: ErrorLogger::toxml)."""
from vlib import Unit, Obl
# _M_mutate (the reallocating slow path of std::string) is declared unreachable: outputs stay within the 15-byte SSO buffer (asserted, not assumed)
UNITS = {'c26': Unit('c26', wrapper='props/C26/wrap.cpp', libs=['lib/errorlogger.cpp'], roots=['k_toxml'],
                     cuts=['_ZNSt7__cxx1112basic_stringIcSt11char_traitsIcESaIcEE9_M_mutateEmmPKcm'])}
META = {'assumptions': ['all byte strings including NUL bytes up to the bound; std::string growth on a byte arena'],
        'outside': 'template substitution, SARIF (picojson), tinyxml2 printing, cppcheck-errors.rng conformance, fixInvalidChars non-printable branch (ostringstream) are outside the claim'}
def obligations(tier):
    L = 2 if tier == 'quick' else 3
    return [Obl('toxml.L%d' % L, 'c26', 'props/C26/harness_toxml.c', 'ErrorLogger::toxml output is XML-safe and decodes to the input modulo the documented losses', 'all byte strings of length <= %d whose escaped form has at most 15 bytes' % L,
                defines={'L': L}, backend='sat', timeout=1500, mem_gb=12, unwind_max=40, max_rounds=40)]
MANIFEST = {
    'text': 'Bounded model checking of the real ErrorLogger::toxml (lib/errorlogger.cpp): for every byte string up to the bound the output contains no raw markup characters, every & starts one of the known entities, and decoding gives the input back except for the documented lossy cases. Kernel-level.',
    'note': 'Trusted: clang-14, ll2c.py (validated natively each run), byte arena for std::string growth, CBMC 6.11 + MiniSat. Bound: |s| <= 2 (quick) / 3 (thorough).',
}
