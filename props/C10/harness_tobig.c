/* C10/L2: MathLib::toBigNumber / toBigUNumber: value of a (optionally signed) integer literal with <= L characters
   == sum digit*base^k, negated for a leading '-', modulo 2^64 */
#define LL_ARENA_PTR_CELLS 64
#define LL_ARENA_T uint8_t
#include "harness.h"
#include "lit.h"
#ifndef L
#define L 4
#endif
static unsigned dv(uint8_t c) { if (c >= '0' && c <= '9') return c - '0'; if (c >= 'a' && c <= 'f') return c - 'a' + 10; return c - 'A' + 10; }
void harness(void) {
  struct sstr s; sstr_sym(&s, 1, L);
  unsigned ds = 0, de = 0; int base = int_literal(s.u.buf, s.n, 0, &ds, &de);
  __CPROVER_assume(base != 0);
  int64_t r = (int64_t)k_tobig((uint8_t*)&s);
  int e1 = __exc_pending; __exc_pending = 0;
  uint64_t ru = k_tobigu((uint8_t*)&s);
  H_OUT("r", r); H_OUT("ru", ru);
  H_ASSERT(!e1 && !__exc_pending, "a valid literal of this length does not throw");
  uint64_t v = 0; for (unsigned i = 0; i < L; i++) if (i >= ds && i < de) v = v * (uint64_t)base + dv(s.u.buf[i]);
  if (s.u.buf[0] == '-') v = (uint64_t)0 - v;
  H_ASSERT((uint64_t)r == v, "toBigNumber == positional value of the literal");
  H_ASSERT(ru == v, "toBigUNumber == positional value of the literal");
  H_WITNESS(!(base == 8), "an octal literal is reachable");
  H_WITNESS(!(base == 2), "a binary literal is reachable");
  H_WITNESS(!(s.u.buf[0] == 0x2d), "a negative literal is reachable");
  H_WITNESS(0, "end of harness reachable");
}
