/* C10: value of (T)constant -- verbatim bodies of setTokenValueCast (lib/vf_settokenvalue.cpp) and castValue (lib/vf_common.cpp) */
#define LL_ARENA_PTR_CELLS 64
#include "harness.h"
enum { T_CHAR = 9, T_SHORT = 10, T_INT = 12, T_LONG = 13, T_LONGLONG = 14 };
enum { S_SIGNED = 1, S_UNSIGNED = 2 };
void harness(void) {
  static const int TT[5] = {T_CHAR, T_SHORT, T_INT, T_LONG, T_LONGLONG};
  int type = TT[in_range(0, 4)]; int sign = (int)in_range(S_SIGNED, S_UNSIGNED);
  unsigned dmk = in_range(0, 2);     /* 16-bit int / ILP32 and LLP64 / LP64 */
  int int_bit = dmk == 0 ? 16 : 32, long_bit = dmk == 2 ? 64 : 32;
  uint64_t v = in_u64();
  int nset = 0;
  int64_t r = k_cast(type, sign, (int64_t)v, int_bit, long_bit, &nset);
  H_OUT("r", r); H_OUT("nset", nset);
  H_ASSERT(!__exc_pending, "no exception");
  unsigned bits = type == T_CHAR ? 8 : type == T_SHORT ? 16 : type == T_INT ? (unsigned)int_bit : type == T_LONG ? (unsigned)long_bit : 64;
  uint64_t want = v;
  if (bits < 64) { uint64_t mask = (1ULL << bits) - 1; want = v & mask; if (sign == S_SIGNED && (want >> (bits - 1))) want |= ~mask; }
  H_ASSERT(nset == 1, "exactly one value is attached to the cast");
  H_ASSERT((uint64_t)r == want, "the value is the constant converted to the cast type of the data model");
  H_WITNESS(!(type == T_LONG && long_bit == 32 && (uint64_t)r != v), "a truncating cast to a 32-bit long is reachable");
  H_WITNESS(0, "end of harness reachable");
}
