/* C10/L3: simplecpp::characterLiteralToLL for NARROW character literals '...': value == what GCC/Clang assign on a target with signed 8-bit char
   (cpp manual, "Implementation-defined behavior": a single char has type char and is sign-extended; a multi-character constant is built
   base 256 from the characters, truncated to int).  Escapes: simple escapes, octal \o \oo \ooo, hexadecimal \xh.. (value must fit a char for hex/octal
   in a narrow literal -- larger is a compile error, the function may throw).  Strings that are not a complete narrow literal are outside. */
#define LL_ARENA_PTR_CELLS 64
#define LL_ARENA_T uint8_t
#include "harness.h"
#ifndef L
#define L 5
#endif
static int hexv(uint8_t c) { if (c >= '0' && c <= '9') return c - '0'; if (c >= 'a' && c <= 'f') return c - 'a' + 10; if (c >= 'A' && c <= 'F') return c - 'A' + 10; return -1; }
void harness(void) {
  struct sstr s; sstr_sym(&s, 3, L);
  __CPROVER_assume(s.u.buf[0] == '\'' && s.u.buf[s.n - 1] == '\'');
  /* reference: parse the body s[1 .. n-2] into character values */
  uint32_t vals[4]; unsigned nv = 0; int valid = 1; unsigned i = 1, end = s.n - 1;
  for (unsigned step = 0; step < L; step++) {
    if (i >= end) break;
    uint8_t c = s.u.buf[i]; uint32_t v = 0;
    if (c == '\'' || c == '\n') { valid = 0; break; }
    if (c != '\\') { v = c; i++; }
    else {
      i++; if (i >= end) { valid = 0; break; }
      uint8_t e = s.u.buf[i];
      if (e == '\'' || e == '"' || e == '?' || e == '\\') { v = e; i++; }
      else if (e == 'a') { v = 7; i++; } else if (e == 'b') { v = 8; i++; } else if (e == 'f') { v = 12; i++; } else if (e == 'n') { v = 10; i++; }
      else if (e == 'r') { v = 13; i++; } else if (e == 't') { v = 9; i++; } else if (e == 'v') { v = 11; i++; }
      else if (e >= '0' && e <= '7') { unsigned k = 0; while (k < 3 && i < end && s.u.buf[i] >= '0' && s.u.buf[i] <= '7') { v = v * 8 + (s.u.buf[i] - '0'); i++; k++; } }
      else if (e == 'x') { i++; unsigned k = 0; for (unsigned q = 0; q < L; q++) if (i < end && hexv(s.u.buf[i]) >= 0) { v = v * 16 + (uint32_t)hexv(s.u.buf[i]); i++; k++; } if (k == 0) { valid = 0; break; } }
      else { valid = 0; break; }   /* other escapes (\e, \u, GCC extensions) are outside this lemma */
    }
    if (v > 255) { valid = 0; break; }   /* does not fit a char: compilers reject or truncate with a diagnostic; outside */
    if (nv < 4) vals[nv] = v; nv++;
  }
  __CPROVER_assume(valid && nv >= 1 && nv <= 4);
  int64_t r = (int64_t)k_charlit((uint8_t*)&s);
  H_OUT("r", r);
  H_ASSERT(!__exc_pending, "a valid narrow character literal does not throw");
  int64_t want;
  if (nv == 1) want = (int64_t)(int8_t)(uint8_t)vals[0];                                 /* type char, signed on the modelled target */
  else { uint32_t acc = 0; for (unsigned k = 0; k < 4; k++) if (k < nv) acc = (acc << 8) | (vals[k] & 0xff); want = (int64_t)(int32_t)acc; }   /* multi-char: int */
  H_ASSERT(r == want, "characterLiteralToLL == value of the narrow character constant (GCC rules, signed char)");
  H_WITNESS(!(nv == 2), "a two-character constant is reachable");
  H_WITNESS(!(nv == 1 && r < 0), "a negative single-character value is reachable");
  H_WITNESS(0, "end of harness reachable");
}
