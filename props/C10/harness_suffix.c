/* C10/L1b: MathLib::isValidIntegerSuffix: strict grammar => accepted => relaxed grammar */
#define LL_ARENA_PTR_CELLS 32
#include "harness.h"
#include "lit.h"
#ifndef L
#define L 4
#endif
void harness(void) {
  struct sstr s; sstr_sym(&s, 1, L); uint8_t ms = in_range(0, 1);
  uint8_t r = k_issuffix((uint8_t*)&s, ms);
  H_OUT("r", r);
  H_ASSERT(!__exc_pending, "no exception");
  H_ASSERT(!suffix_strict(s.u.buf, s.n) || r, "every standard integer-suffix is accepted");
  H_ASSERT(!r || suffix_relaxed(s.u.buf, s.n, ms), "accepted suffixes are standard ones, mixed-case ll, Microsoft i64/ui64 (only when enabled) or user-defined");
  H_WITNESS(!(r && s.n == 3), "a three-letter suffix is reachable");
  H_WITNESS(0, "end of harness reachable");
}
