// C10: literal classification and values (lib/mathlib.cpp), character literals (externals/simplecpp), platform limits (lib/platform.cpp)
#include "vwrap.h"
#include "mathlib.h"
#include "simplecpp.h"
KFN(bool, k_isint, (const std::string* s), return MathLib::isInt(*s);)
KFN(int, k_class, (const std::string* s), return (MathLib::isDec(*s) ? 1 : 0) | (MathLib::isIntHex(*s) ? 2 : 0) | (MathLib::isOct(*s) ? 4 : 0) | (MathLib::isBin(*s) ? 8 : 0);)
KFN(bool, k_issuffix, (const std::string* s, bool ms), return MathLib::isValidIntegerSuffix(*s, ms);)
KFN(long long, k_tobig, (const std::string* s), return MathLib::toBigNumber(*s, nullptr);)
KFN(unsigned long long, k_tobigu, (const std::string* s), return MathLib::toBigUNumber(*s, nullptr);)
KFN(long long, k_charlit, (const std::string* s), return simplecpp::characterLiteralToLL(*s);)
