/* C10/L1: MathLib::isInt / isDec / isIntHex / isOct / isBin against the integer-literal grammar:
   every valid (optionally signed) literal is recognised; everything recognised is a literal in the relaxed grammar */
#define LL_ARENA_PTR_CELLS 32
#include "harness.h"
#include "lit.h"
#ifndef L
#define L 4
#endif
void harness(void) {
  struct sstr s; sstr_sym(&s, 0, L);
  uint8_t r = k_isint((uint8_t*)&s); int c = (int)k_class((uint8_t*)&s);
  H_OUT("r", r); H_OUT("c", c);
  H_ASSERT(!__exc_pending, "no exception");
  unsigned ds = 0, de = 0, ds2 = 0, de2 = 0;
  int strict = int_literal(s.u.buf, s.n, 0, &ds, &de), relaxed = int_literal(s.u.buf, s.n, 1, &ds2, &de2);
  H_ASSERT(!strict || r, "every valid integer literal is recognised by isInt");
  H_ASSERT(!r || relaxed, "everything isInt recognises is an integer literal (relaxed suffix rules)");
  H_ASSERT((r != 0) == (c != 0), "isInt == isDec || isIntHex || isOct || isBin");
  H_ASSERT(!(strict == 16) || (c & 2), "hexadecimal literals are classified as hex");
  H_ASSERT(!(strict == 2) || (c & 8), "binary literals are classified as binary");
  H_ASSERT(!(strict == 8) || (c & 4), "octal literals are classified as octal");
  H_ASSERT(!(c & 2) || relaxed == 16, "isIntHex only for hexadecimal literals");
  H_ASSERT(!(c & 8) || relaxed == 2, "isBin only for binary literals");
  H_WITNESS(!(strict == 16 && s.n == L), "a full-length hex literal is reachable");
  H_WITNESS(0, "end of harness reachable");
}
