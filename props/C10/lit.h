/* reference recognisers written from the C++17 grammar [lex.icon] (no digit separators: the tokenizer removes them) */
static int is_dec(uint8_t c) { return c >= '0' && c <= '9'; }
static int is_oct(uint8_t c) { return c >= '0' && c <= '7'; }
static int is_hex(uint8_t c) { return is_dec(c) || (c >= 'a' && c <= 'f') || (c >= 'A' && c <= 'F'); }
/* integer-suffix, strict: u l? | u ll? | l u? | ll u? (ll same case) | z u? | u z  -- case-insensitive otherwise */
static int suffix_strict(const uint8_t* s, unsigned n) {
  if (n == 0) return 1;
  int u = 0, l = 0, z = 0; unsigned i = 0;
  /* optional leading u */
  if (s[i] == 'u' || s[i] == 'U') { u = 1; i++; }
  if (i < n && (s[i] == 'l' || s[i] == 'L')) { l = 1; if (i + 1 < n && s[i + 1] == s[i]) { l = 2; i += 2; } else i++; }
  else if (i < n && (s[i] == 'z' || s[i] == 'Z')) { z = 1; i++; }
  if (!u && i < n && (s[i] == 'u' || s[i] == 'U')) { u = 1; i++; }
  return i == n && (u || l || z);
}
/* relaxed: what a tool may additionally tolerate: mixed-case lL, Microsoft i64/ui64, user-defined literal _x... */
static int suffix_relaxed(const uint8_t* s, unsigned n, int ms) {
  if (suffix_strict(s, n)) return 1;
  if (n >= 2 && s[0] == '_') return 1;
  uint8_t t[8]; for (unsigned i = 0; i < 8; i++) t[i] = (i < n) ? ((s[i] >= 'A' && s[i] <= 'Z') ? s[i] + 32 : s[i]) : 0;
  if (n == 2 && t[0] == 'l' && t[1] == 'l') return 1;
  if (n == 3 && ((t[0] == 'u' && t[1] == 'l' && t[2] == 'l') || (t[0] == 'l' && t[1] == 'l' && t[2] == 'u'))) return 1;
  if (ms && n == 3 && t[0] == 'i' && s[1] == '6' && s[2] == '4') return 1;
  if (ms && n == 4 && t[0] == 'u' && t[1] == 'i' && s[2] == '6' && s[3] == '4') return 1;
  return 0;
}
/* integer literal (optionally signed, as cppcheck tokens can be): returns base (2,8,10,16) or 0; *dstart,*dend = digit range */
static int int_literal(const uint8_t* s, unsigned n, int relaxed, unsigned* dstart, unsigned* dend) {
  unsigned i = 0; if (i < n && (s[i] == '+' || s[i] == '-')) i++;
  int base = 0; unsigned ds, de;
  if (i + 1 < n && s[i] == '0' && (s[i + 1] == 'x' || s[i + 1] == 'X')) { base = 16; ds = i + 2; de = ds; while (de < n && is_hex(s[de])) de++; }
  else if (i + 1 < n && s[i] == '0' && (s[i + 1] == 'b' || s[i + 1] == 'B')) { base = 2; ds = i + 2; de = ds; while (de < n && (s[de] == '0' || s[de] == '1')) de++; }
  else if (i < n && s[i] == '0') { ds = i; de = i + 1; while (de < n && is_oct(s[de])) de++; base = (de - ds > 1) ? 8 : 10; if (!relaxed && de < n && is_dec(s[de])) return 0; if (relaxed) while (de < n && is_dec(s[de])) { de++; base = 10; } }
  else { base = 10; ds = i; de = ds; while (de < n && is_dec(s[de])) de++; }
  if (de == ds) return 0;
  if (!(relaxed ? suffix_relaxed(s + de, n - de, 1) : suffix_strict(s + de, n - de))) return 0;
  *dstart = ds; *dend = de; return base;
}
