"""C21 -- a crashing worker process is contained (kernel: EOF handling of ProcessExecutor::handleRead, wait-status decision of ProcessExecutor::check).
Shares the slices of props/C15.py (own unit name so that both checks can run at the same time)."""
import importlib.util, os
import vlib
from vlib import Unit, Obl
_spec = importlib.util.spec_from_file_location('prop_C15_for_C21', os.path.join(os.path.dirname(os.path.abspath(__file__)), 'C15.py'))
_c15 = importlib.util.module_from_spec(_spec); _spec.loader.exec_module(_c15)

UNITS = {'c21': Unit('c21', wrapper_text=_c15.wrapper, roots=['k_write', 'k_read', 'k_waitstatus'], libs=[], cflags=['-DHAS_THREADING_MODEL_FORK'], shim=False,
                     # payloads stay within std::string's 15-byte local buffer: the heap paths are declared unreachable (asserted)
                     cuts=['_ZNSt7__cxx1112basic_stringIcSt11char_traitsIcESaIcEE9_M_createERmm', '_ZNSt7__cxx1112basic_stringIcSt11char_traitsIcESaIcEE9_M_mutateEmmPKcm'])}
META = dict(_c15.META)
META['assumptions'] = _c15.META['assumptions'] + ['wait-status encoding of Linux/glibc (bits/waitstatus.h)', 'crash points: before the first message, between complete messages and after the last one (a worker dying between the three write() calls of ONE message makes the real code call std::exit -- reported as an observation, outside the property as worded)']
def obligations(tier):
    L = 2 if tier == 'quick' else 3
    return [
        Obl('wait.status', 'c21', 'props/C15/harness_wait.c', 'every abnormal wait status (non-zero exit code or signal) reaches reportInternalChildErr with the worker\'s file name; a clean exit reports nothing',
            'all 32-bit wait status values', backend='sat', timeout=900, mem_gb=8, unwind_max=40, max_rounds=30),
    ] + ([] if tier == 'quick' else [
        Obl('eof.boundary.L%d' % L, 'c21', 'props/C15/harness_ipc.c', 'a worker that disappears at a message boundary: handleRead returns "child done", delivers nothing and increments the result (non-zero exit status); the messages before it are delivered',
            'one complete message of <= %d payload bytes then EOF, every read schedule' % L, defines={'L': L, 'MODE': 0}, backend='sat', timeout=3000, mem_gb=16, unwind_max=40, max_rounds=40,
            hints={'k_read.1': 9, 'll_read.0': 9, 'll_write.0': 6, 'sstr_sym.0': L + 1, 'check_delivery.0': L + 1, 'check_delivery.1': L + 1}),
    ])
MANIFEST = {
    'text': 'Bounded model checking of the verbatim wait-status decision of ProcessExecutor::check (all 2^32 status values) and of the verbatim body of ProcessExecutor::handleRead at end-of-stream after complete messages: an abnormal worker exit is always reported with the worker\'s file name, and a vanished worker makes the parent finish that pipe with a non-zero result. Kernel-level: the select/waitpid loop bookkeeping is outside.',
    'note': 'Trusted: clang-14, ll2c.py (validated natively each run), pipe model, glibc wait-status encoding, CBMC 6.11 + MiniSat.',
    'engine': 'E2 slice + E1 ir2c + CBMC',
}
