/* C09/L3: floating part of the usual arithmetic conversions in SymbolDatabase::setValueType (verbatim block) */
#define LL_ARENA_PTR_CELLS 64
#include "harness.h"
enum { T_INT = 12, T_LONG = 13, T_FLOAT = 16, T_DOUBLE = 17, T_LONGDOUBLE = 18 };
void harness(void) {
  static const int TT[5] = {T_INT, T_LONG, T_FLOAT, T_DOUBLE, T_LONGDOUBLE};
  int t1 = TT[in_range(0, 4)], t2 = TT[in_range(0, 4)];
  unsigned r = k_float(t1, HAS2, t2);
  H_OUT("r", r);
  H_ASSERT(!__exc_pending, "no exception");
  unsigned set = r & 0xff, rtype = (r >> 8) & 0xff;
  int f1 = (t1 >= T_FLOAT), f2 = (t2 >= T_FLOAT);
  if (f1 || f2) {
    int want = (f1 && f2) ? (t1 > t2 ? t1 : t2) : (f1 ? t1 : t2);
    H_ASSERT(set == 1 && (int)rtype == want, "result is the larger floating type of the two operands");
  } else {
    H_ASSERT(set == 0, "no floating operand: the floating rules do not apply");
  }
  H_WITNESS(!(set == 1 && rtype == T_LONGDOUBLE && t1 != T_LONGDOUBLE), "long double coming from the right operand is reachable");
  H_WITNESS(0, "end of harness reachable");
}
