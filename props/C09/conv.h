/* C11 integer conversion rules written from the standard text (6.3.1.1, 6.3.1.8), parameterised by the data model */
enum { T_BOOL = 8, T_CHAR = 9, T_SHORT = 10, T_INT = 12, T_LONG = 13, T_LONGLONG = 14 };
enum { S_UNKNOWN = 0, S_SIGNED = 1, S_UNSIGNED = 2 };
struct dm { unsigned cb, sb, ib, lb, llb; };
static unsigned bitsof(int t, const struct dm* m) { switch (t) { case T_BOOL: return 1; case T_CHAR: return m->cb; case T_SHORT: return m->sb; case T_INT: return m->ib; case T_LONG: return m->lb; default: return m->llb; } }
static int rnk(int t) { switch (t) { case T_BOOL: return 0; case T_CHAR: return 1; case T_SHORT: return 2; case T_INT: return 3; case T_LONG: return 4; default: return 5; } }
/* 6.3.1.1p2: if an int can represent all values of the original type, the value is converted to an int; otherwise to an unsigned int */
static void promote(int* t, int* uns, const struct dm* m) {
  if (rnk(*t) < 3) { unsigned b = bitsof(*t, m); if (!*uns || b < m->ib) { *t = T_INT; *uns = 0; } else { *t = T_INT; *uns = 1; } }
}
/* 6.3.1.8p1 for integer operands (after promotion) */
static void usual(int t1, int u1, int t2, int u2, const struct dm* m, int* ct, int* cu) {
  if (u1 == u2) { *ct = rnk(t1) >= rnk(t2) ? t1 : t2; *cu = u1; return; }
  int ut = u1 ? t1 : t2, st = u1 ? t2 : t1;
  if (rnk(ut) >= rnk(st)) { *ct = ut; *cu = 1; }
  else if (bitsof(st, m) > bitsof(ut, m)) { *ct = st; *cu = 0; }
  else { *ct = st; *cu = 1; }
}
static void pick_dm(unsigned k, struct dm* m) {
  m->cb = 8; m->sb = 16; m->llb = 64;
  if (k == 0) { m->ib = 16; m->lb = 32; } else if (k == 1) { m->ib = 32; m->lb = 32; } else { m->ib = 32; m->lb = 64; }
}
