/* C09/L2: the << / >> block of SymbolDatabase::setValueType: result type == promoted LEFT operand (C11 6.5.7p3) */
#define LL_ARENA_PTR_CELLS 64
#include "harness.h"
#include "conv.h"
void harness(void) {
  static const int TT[6] = {T_BOOL, T_CHAR, T_SHORT, T_INT, T_LONG, T_LONGLONG};
  int t1 = TT[in_range(0, 5)], t2 = TT[in_range(0, 5)];
  int s1 = (int)in_range(1, 2), s2 = (int)in_range(1, 2); unsigned left = in_range(0, 1);
  struct dm m; unsigned k = in_range(0, 2); pick_dm(k, &m);
  if (t1 == T_BOOL) s1 = S_UNSIGNED;
  int p1 = t1, u1 = (s1 == S_UNSIGNED);
  promote(&p1, &u1, &m);
#ifdef KF_USHORT_WITH_16BIT_INT
  __CPROVER_assume(!(m.ib == 16 && t1 == T_SHORT && s1 == S_UNSIGNED));
#endif
  unsigned r = k_shift(t1, (t1 == T_BOOL) ? S_UNKNOWN : s1, t2, s2, left);
  H_OUT("r", r);
  H_ASSERT(!__exc_pending, "no exception");
  unsigned set = r & 0xff, rtype = (r >> 8) & 0xff, rsign = (r >> 16) & 0xff;
  H_ASSERT(set == 1, "exactly one result type is set");
  H_ASSERT((int)rtype == p1, "shift result type == promoted left operand");
  H_ASSERT(rsign == (u1 ? S_UNSIGNED : S_SIGNED), "shift result signedness == promoted left operand");
  H_WITNESS(!(rtype == T_LONG && rsign == S_UNSIGNED), "an unsigned long result is reachable");
  H_WITNESS(0, "end of harness reachable");
}
