/* C09/L1: the integer binary-operator block of SymbolDatabase::setValueType against C11 6.3.1.1 + 6.3.1.8 */
#define LL_ARENA_PTR_CELLS 64
#include "harness.h"
#include "conv.h"
void harness(void) {
  static const int TT[6] = {T_BOOL, T_CHAR, T_SHORT, T_INT, T_LONG, T_LONGLONG};
  int t1 = TT[in_range(0, 5)], t2 = TT[in_range(0, 5)];
  int s1 = (int)in_range(1, 2), s2 = (int)in_range(1, 2); const int has2 = HAS2;
  struct dm m; unsigned k = in_range(0, 2); pick_dm(k, &m);
  if (t1 == T_BOOL) s1 = S_UNSIGNED; if (t2 == T_BOOL) s2 = S_UNSIGNED;
  int p1 = t1, u1 = (s1 == S_UNSIGNED), p2 = t2, u2 = (s2 == S_UNSIGNED), ct, cu;
  promote(&p1, &u1, &m); promote(&p2, &u2, &m);
  if (has2) usual(p1, u1, p2, u2, &m, &ct, &cu); else { ct = p1; cu = u1; }
#ifdef KF_UNSIGNED_LOWER_RANK_SAME_WIDTH
  /* known finding F4: unsigned operand of lower rank than a signed operand of the same width (e.g. unsigned int + long with 32-bit long,
     unsigned long + long long on LP64): C converts to the unsigned type of the higher rank, cppcheck keeps the signed one */
  __CPROVER_assume(!(has2 && u1 != u2 && rnk(u1 ? p1 : p2) < rnk(u1 ? p2 : p1) && bitsof(u1 ? p1 : p2, &m) == bitsof(u1 ? p2 : p1, &m)));
#endif
#ifdef KF_USHORT_WITH_16BIT_INT
  /* known finding: unsigned short (width == int) promotes to unsigned int on 16-bit-int platforms, cppcheck promotes to signed int */
  __CPROVER_assume(!(m.ib == 16 && ((t1 == T_SHORT && s1 == S_UNSIGNED) || (has2 && t2 == T_SHORT && s2 == S_UNSIGNED))));
#endif
  unsigned r = k_arith(t1, (t1 == T_BOOL) ? S_UNKNOWN : s1, has2, t2, (t2 == T_BOOL) ? S_UNKNOWN : s2, 0);
  H_OUT("r", r);
  H_ASSERT(!__exc_pending, "no exception");
  unsigned set = r & 0xff, rtype = (r >> 8) & 0xff, rsign = (r >> 16) & 0xff;
  H_ASSERT(set == 1, "exactly one result type is set for integer operands");
  H_ASSERT((int)rtype == ct, "result type == type given by the usual arithmetic conversions");
  H_ASSERT(rsign == (cu ? S_UNSIGNED : S_SIGNED), "result signedness == signedness given by the usual arithmetic conversions");
  H_WITNESS(!(rtype == T_LONGLONG && rsign == S_UNSIGNED), "an unsigned long long result is reachable");
  H_WITNESS(0, "end of harness reachable");
}
