/* C18: what Preprocessor::calculateHash feeds to std::hash */
#define LL_ARENA_PTR_CELLS 48
#define LL_ARENA_T uint8_t
#include "harness.h"
static int g_lang = 1;
static void feed(int n, int nc, uint8_t* cm, struct sstr* tx, uint32_t* ln, uint32_t* cl, uint8_t* out, uint64_t* len) {
  uint8_t* tp[3] = {(uint8_t*)&tx[0], (uint8_t*)&tx[1], (uint8_t*)&tx[2]};
  memset(out, 0, 64);
  k_hashfeed(g_lang, n, nc, cm, (uint8_t*)tp, (uint8_t*)ln, (uint8_t*)cl, out, (uint8_t*)len);
}
void harness(void) {
  uint8_t cmA[3] = {0, 0, 0}, cmB[3] = {0, 0, 0}; struct sstr txA[3], txB[3]; uint32_t lnA[3], clA[3], lnB[3], clB[3];
  uint8_t outA[64], outB[64]; uint64_t lenA = 0, lenB = 0;
#if MODE == 0
  int n = N, nc = NC;
  for (int i = 0; i < 3; i++) { sstr_sym(&txA[i], 1, 1); txB[i] = txA[i]; txB[i].p = txB[i].u.buf; lnA[i] = in_u32(); clA[i] = in_u32(); lnB[i] = in_u32(); clB[i] = in_u32(); }
  int differ = 0;
  for (int i = 0; i < 3; i++) { int live = (i < 2) ? (i < n) : nc; if (live && (lnA[i] != lnB[i] || clA[i] != clB[i])) differ = 1; }
  __CPROVER_assume(differ);
  feed(n, nc, cmA, txA, lnA, clA, outA, &lenA);
  feed(n, nc, cmB, txB, lnB, clB, outB, &lenB);
  H_ASSERT(!__exc_pending, "no exception");
  int same = (lenA == lenB);
  for (unsigned i = 0; i < 40; i++) if (i < lenA && outA[i] != outB[i]) same = 0;
  H_OUT("lenA", lenA); H_OUT("same", same);
  H_ASSERT(!same, "a different line or column number changes the hashed byte string");
#elif MODE == 2
  sstr_sym(&txA[0], 1, 1); sstr_set(&txA[1], "x"); sstr_set(&txA[2], "x"); lnA[0] = in_u32(); clA[0] = in_u32(); lnA[1] = lnA[2] = clA[1] = clA[2] = 0;
  g_lang = 1; feed(1, 0, cmA, txA, lnA, clA, outA, &lenA);
  g_lang = 2; feed(1, 0, cmA, txA, lnA, clA, outB, &lenB);
  g_lang = 1;
  H_ASSERT(!__exc_pending, "no exception");
  int same = (lenA == lenB);
  for (unsigned i = 0; i < 40; i++) if (i < lenA && outA[i] != outB[i]) same = 0;
  H_OUT("lenA", lenA); H_OUT("same", same);
  H_ASSERT(!same, "analysing the file as another language changes the hashed byte string");
#else
  /* stream A: [T]; stream B: [comment][T'] -- same location for T and T' */
  sstr_sym(&txA[0], 1, 1); sstr_sym(&txB[1], 1, 1); sstr_sym(&txB[0], 1, 1); sstr_set(&txA[1], "x"); sstr_set(&txA[2], "x"); sstr_set(&txB[2], "x");
  lnA[0] = lnB[1] = in_u32(); clA[0] = clB[1] = in_u32(); lnB[0] = in_u32(); clB[0] = in_u32(); lnA[1] = lnA[2] = clA[1] = clA[2] = lnB[2] = clB[2] = 0;
  cmB[0] = 1;
  feed(1, 0, cmA, txA, lnA, clA, outA, &lenA);
  feed(2, 0, cmB, txB, lnB, clB, outB, &lenB);
  H_ASSERT(!__exc_pending, "no exception");
  int same = (lenA == lenB);
  for (unsigned i = 0; i < 40; i++) if (i < lenA && outA[i] != outB[i]) same = 0;
  int sametext = (txA[0].n == txB[1].n); for (unsigned i = 0; i < 2; i++) if (i < txA[0].n && txA[0].u.buf[i] != txB[1].u.buf[i]) sametext = 0;
  H_OUT("lenA", lenA); H_OUT("same", same);
  H_ASSERT(!sametext || same, "a comment token does not contribute to the key");
  H_ASSERT(sametext || !same, "a different token text changes the hashed byte string");
  H_WITNESS(!sametext, "equal texts are reachable");
#endif
  H_WITNESS(0, "end of harness reachable");
}
