/* C18: AnalyzerInformation::getAnalyzerInfoFileFromFilesTxt (verbatim body): files.txt holds "1:::A" and "2:::B" for two DIFFERENT source
   paths A and B (same configuration, same file id): looking up A must give "1", looking up B must give "2" */
#define LL_ARENA_PTR_CELLS 64
#define LL_ARENA_T uint8_t
#include "harness.h"
#define PL 3
static void mkline(struct sstr* l, char tag, const struct sstr* path) {
  l->p = l->u.buf; l->u.buf[0] = (uint8_t)tag; l->u.buf[1] = ':'; l->u.buf[2] = ':'; l->u.buf[3] = ':';
  for (unsigned i = 0; i < PL; i++) l->u.buf[4 + i] = path->u.buf[i];
  l->n = 4 + path->n; l->u.buf[l->n] = 0;
}
void harness(void) {
  struct sstr A, B; sstr_sym(&A, 1, PL); sstr_sym(&B, 1, PL);
  for (unsigned i = 0; i < PL; i++) { uint8_t a = A.u.buf[i], b = B.u.buf[i]; if (i < A.n) __CPROVER_assume(a == 'a' || a == 'b' || a == '/'); if (i < B.n) __CPROVER_assume(b == 'a' || b == 'b' || b == '/'); }
  int same = (A.n == B.n); for (unsigned i = 0; i < PL; i++) if (i < A.n && A.u.buf[i] != B.u.buf[i]) same = 0;
  __CPROVER_assume(!same);
  int ra = (int)k_lookup((uint8_t*)&A, (uint8_t*)&B, (uint8_t*)&A);
  int e1 = __exc_pending; __exc_pending = 0;
  int rb = (int)k_lookup((uint8_t*)&A, (uint8_t*)&B, (uint8_t*)&B);
  H_OUT("ra", ra); H_OUT("rb", rb);
  H_ASSERT(!e1 && !__exc_pending, "no exception");
  H_ASSERT(ra == '1', "the first file finds its own cache entry");
  H_ASSERT(rb == '2', "the second file finds its own cache entry (not the first file's)");
  H_WITNESS(!(B.n == 3 && A.n == 1), "a long path next to a short path is reachable");
  H_WITNESS(0, "end of harness reachable");
}
