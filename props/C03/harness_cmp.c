/* C03/L3: CheckCondition::comparison(): whenever comparisonError(.., num1, op, num2, result) is called,
   ((X bitop num1) cmp num2) == result for EVERY X  (for '&': every int64 X; for '|': the code requires an unsigned lhs: every uint64 X) */
#define LL_ARENA_PTR_CELLS 64
#include "harness.h"
static const char* OPS[] = {"==","!=","<",">","<=",">="};
static int rels(unsigned k, int64_t a, int64_t b) { switch (k) { case 0: return a == b; case 1: return a != b; case 2: return a < b; case 3: return a > b; case 4: return a <= b; default: return a >= b; } }
static int relu(unsigned k, uint64_t a, uint64_t b) { switch (k) { case 0: return a == b; case 1: return a != b; case 2: return a < b; case 3: return a > b; case 4: return a <= b; default: return a >= b; } }
void harness(void) {
  unsigned k = in_range(0, 5); unsigned isAndOp = in_range(0, 1);
  int lhsSign = (int)in_range(0, 3) - 1;       /* -1: no valueType, 0 unknown, 1 signed, 2 unsigned */
  int64_t num1 = (int64_t)in_u64(), num2 = (int64_t)in_u64(); uint64_t X = in_u64();
  struct sstr op; sstr_set(&op, OPS[k]);
  unsigned r = k_cmp((uint8_t*)&op, isAndOp, lhsSign, num1, num2);
  H_OUT("r", r);
  H_ASSERT(!__exc_pending, "no exception");
  unsigned reported = r & 3, result = (r >> 2) & 1;
  H_ASSERT(reported <= 1, "at most one report per number");
  if (reported) {
    H_ASSERT(num1 >= 0 && num2 >= 0, "only non-negative constants are judged");
    H_ASSERT(r & 8, "the reported constants are the analysed ones");
    if (isAndOp) {
      /* X & num1 with num1 >= 0 is non-negative whatever the signedness of X: compare as signed 64-bit */
      H_ASSERT(rels(k, (int64_t)(X & (uint64_t)num1), num2) == (int)result, "(X & num1) cmp num2 == result for every X");
    } else if (k <= 1) {
      H_ASSERT(relu(k, X | (uint64_t)num1, (uint64_t)num2) == (int)result, "(X | num1) ==/!= num2 == result for every X");
    } else {
      H_ASSERT(lhsSign == 2, "ordering verdicts on | only for an unsigned lhs");
      H_ASSERT(relu(k, X | (uint64_t)num1, (uint64_t)num2) == (int)result, "(X | num1) cmp num2 == result for every unsigned X");
    }
  }
  H_WITNESS(!(reported && isAndOp && k >= 2), "a report on & with an ordering operator is reachable");
  H_WITNESS(!(reported && !isAndOp && k >= 2), "a report on | with an ordering operator is reachable");
  H_WITNESS(0, "end of harness reachable");
}
