/* C03/L4: decision block of checkCompareValueOutOfTypeRange: if it decides `error` with `result`, then the comparison
   really has that value for EVERY value x of the typed operand, under the C conversions (C11 6.3.1.1 promotions, 6.3.1.8 usual
   arithmetic conversions) on the given platform widths.  i==0: `kiv op x`, i==1: `x op kiv`. */
#define LL_ARENA_PTR_CELLS 64
#include "harness.h"
static const char* OPS[] = {"==","!=","<",">","<=",">="};
enum { T_BOOL = 8, T_CHAR = 9, T_SHORT = 10, T_INT = 12, T_LONG = 13, T_LONGLONG = 14 };
static unsigned bitsof(int t, unsigned cb, unsigned sb, unsigned ib, unsigned lb, unsigned llb) { switch (t) { case T_BOOL: return 1; case T_CHAR: return cb; case T_SHORT: return sb; case T_INT: return ib; case T_LONG: return lb; default: return llb; } }
static int rnk(int t) { switch (t) { case T_BOOL: return 0; case T_CHAR: return 1; case T_SHORT: return 2; case T_INT: return 3; case T_LONG: return 4; default: return 5; } }
static int relu(unsigned k, uint64_t a, uint64_t b) { switch (k) { case 0: return a == b; case 1: return a != b; case 2: return a < b; case 3: return a > b; case 4: return a <= b; default: return a >= b; } }
static int rels(unsigned k, int64_t a, int64_t b) { switch (k) { case 0: return a == b; case 1: return a != b; case 2: return a < b; case 3: return a > b; case 4: return a <= b; default: return a >= b; } }
/* integer promotion: (type, unsigned?) -> (type, unsigned?) */
static void promote(int* t, int* uns, unsigned bits, unsigned ib) {
  if (rnk(*t) < 3) { if (bits < ib || !*uns) { *t = T_INT; *uns = 0; } else { *t = T_INT; *uns = 1; } }
}
void harness(void) {
  unsigned k = in_range(0, 5); unsigned i = in_range(0, 1);
  static const int TT[6] = {T_BOOL, T_CHAR, T_SHORT, T_INT, T_LONG, T_LONGLONG};
  int ttype = TT[in_range(0, 5)], vtype = TT[in_range(3, 5)];   /* value operand: int or wider (a literal / known constant) */
  int tsign = (int)in_range(1, 2), vsign = (int)in_range(1, 2);  /* 1 signed, 2 unsigned (unknown sign excluded: stated) */
  unsigned ib = in_range(0, 1) ? 32 : 16, lb = in_range(0, 1) ? 64 : 32, cb = 8, sb = 16, llb = 64;
  int64_t kiv = (int64_t)in_u64(); uint64_t xr = in_u64();
  if (ttype == T_BOOL) tsign = 2;
  unsigned tb = bitsof(ttype, cb, sb, ib, lb, llb), vb = bitsof(vtype, cb, sb, ib, lb, llb);
  /* kiv is a value of the value operand's type */
  if (vb < 64) { if (vsign == 1) __CPROVER_assume(kiv >= -(1LL << (vb - 1)) && kiv < (1LL << (vb - 1))); else __CPROVER_assume(kiv >= 0 && kiv < (1LL << vb)); }
  else if (vsign == 2) __CPROVER_assume(kiv >= 0);   /* getKnownIntValue is a bigint: unsigned values above INT64_MAX not representable */
  /* C semantics of the comparison */
  int t1 = ttype, u1 = (tsign == 2), t2 = vtype, u2 = (vsign == 2);
  promote(&t1, &u1, tb, ib); promote(&t2, &u2, vb, ib);
  unsigned b1 = bitsof(t1, cb, sb, ib, lb, llb), b2 = bitsof(t2, cb, sb, ib, lb, llb);
  int ct, cu; unsigned cbits;
  if (u1 == u2) { ct = rnk(t1) >= rnk(t2) ? t1 : t2; cu = u1; }
  else {
    int ut = u1 ? t1 : t2, st = u1 ? t2 : t1; unsigned ub = u1 ? b1 : b2, stb = u1 ? b2 : b1;
    if (rnk(ut) >= rnk(st)) { ct = ut; cu = 1; }
    else if (stb > ub) { ct = st; cu = 0; }
    else { ct = st; cu = 1; }
  }
  cbits = bitsof(ct, cb, sb, ib, lb, llb);
  uint64_t mask = cbits >= 64 ? ~0ULL : ((1ULL << cbits) - 1);
  /* environment fact (observed on the real binary: `x < -32514` with 16-bit unsigned x carries the known value 33022): value flow has
     already converted the constant operand to the type of the comparison */
#ifdef KF_SIGNED_OPERAND_UNSIGNED_COMPARISON
  /* known finding: a signed typed operand compared in an unsigned common type (negative values wrap to large ones) */
  __CPROVER_assume(!(tsign == 1 && cu));
#endif
  int64_t kiv_in = cu ? (int64_t)((uint64_t)kiv & mask) : kiv;
  struct sstr op; sstr_set(&op, OPS[k]);
  unsigned r = k_range((uint8_t*)&op, (int)i, ttype, tsign, vsign, kiv_in, cb, sb, ib, lb, llb);
  H_OUT("r", r);
  H_ASSERT(!__exc_pending, "no exception");
  unsigned reached = r & 1, error = (r >> 1) & 1, result = (r >> 2) & 1;
  /* x: any value of the typed operand */
  int64_t x;
  if (tb >= 64) x = (int64_t)xr;
  else if (tsign == 2) x = (int64_t)(xr & ((1ULL << tb) - 1));
  else { uint64_t m = xr & ((1ULL << tb) - 1); x = (m >> (tb - 1)) ? (int64_t)(m | ~((1ULL << tb) - 1)) : (int64_t)m; }
  int truth;
  if (cu) { uint64_t a = (uint64_t)x & mask, b = (uint64_t)kiv & mask; truth = (i == 0) ? relu(k, b, a) : relu(k, a, b); }
  else truth = (i == 0) ? rels(k, kiv, x) : rels(k, x, kiv);   /* both fit the signed common type */
  if (reached && error) H_ASSERT(truth == (int)result, "reported 'condition is always <result>' holds for every value of the typed operand");
  H_WITNESS(!(reached && error && result), "an always-true verdict is reachable");
  H_WITNESS(!(reached && error && !result), "an always-false verdict is reachable");
  H_WITNESS(0, "end of harness reachable");
}
