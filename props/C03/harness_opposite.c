/* C03/L5: decision core of isOppositeCond(isNot, cond1, cond2) (verbatim tail of the function, lib/astutils.cpp):
   result true  =>  !isNot: cond1 and cond2 are never both true;   isNot: cond2 == !cond1  -- for every value of the variables x, y */
#define LL_ARENA_PTR_CELLS 64
#include "harness.h"
static const char* OPS[] = {"==","!=","<",">","<=",">="};
static int rel(unsigned k, int64_t a, int64_t b) { switch (k) { case 0: return a == b; case 1: return a != b; case 2: return a < b; case 3: return a > b; case 4: return a <= b; default: return a >= b; } }
void harness(void) {
  unsigned k1 = K1, k2 = K2; uint8_t isNot = in_range(0, 1);
  int kind[4]; int64_t val[4];
  for (int i = 0; i < 4; i++) { kind[i] = (int)in_range(0, 2); val[i] = (int64_t)(int32_t)in_u32(); __CPROVER_assume(val[i] > -32768 && val[i] < 32768); }
  int64_t x = (int64_t)in_u64(), y = (int64_t)in_u64();
  struct sstr op1, op2; sstr_set(&op1, OPS[k1]); sstr_set(&op2, OPS[k2]);
  uint8_t r = k_opposite(isNot, (uint8_t*)&op1, kind[0], val[0], kind[1], val[1], (uint8_t*)&op2, kind[2], val[2], kind[3], val[3]);
  H_OUT("r", r);
  H_ASSERT(!__exc_pending, "no exception");
  int64_t e[4]; for (int i = 0; i < 4; i++) e[i] = kind[i] == 0 ? x : kind[i] == 1 ? y : val[i];
  int c1 = rel(k1, e[0], e[1]), c2 = rel(k2, e[2], e[3]);
  if (r && !isNot) H_ASSERT(!(c1 && c2), "'opposite' conditions are never both true");
  if (r && isNot) H_ASSERT(c2 == !c1, "'opposite' (isNot) means the second condition is the negation of the first");
  H_WITNESS(r, "a non-opposite verdict is reachable");
  H_WITNESS(0, "end of harness reachable");
}
