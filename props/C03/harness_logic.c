/* C03/L1: the decision of checkIncorrectLogicOperator for `x op1 c1 LOGOP x op2 c2` (verbatim slice incl. the reporting branch):
   every reported verdict holds for EVERY value of x.  XSIGNED=1: x is a signed 64-bit variable, literals are signed values;
   XSIGNED=0: x is unsigned 64-bit, literals are non-negative values < 2^64.  i_k/u_k are what toBigNumber/toBigUNumber return. */
#define LL_ARENA_PTR_CELLS 64
#include "harness.h"
static const char* OPS[] = {"==","!=","<",">","<=",">="};
#if XSIGNED
typedef int64_t xt;
#else
typedef uint64_t xt;
#endif
static int rel(unsigned k, xt x, xt c) { switch (k) { case 0: return x == c; case 1: return x != c; case 2: return x < c; case 3: return x > c; case 4: return x <= c; default: return x >= c; } }
void harness(void) {
#ifdef K1
  unsigned k1 = K1, k2 = K2; uint8_t not1 = N1, not2 = N2,
#else
  unsigned k1 = in_range(0, 5), k2 = in_range(0, 5);
  uint8_t not1 = in_range(0, 1), not2 = in_range(0, 1),
#endif
 isAnd = in_range(0, 1), pw = in_range(0, 1), ps = in_range(0, 1);
  uint64_t b1 = in_u64(), b2 = in_u64();          /* bit patterns of the two literal values */
  xt x = (xt)in_u64();
  xt c1 = (xt)b1, c2 = (xt)b2;                      /* the values the C program compares against */
  int64_t i1 = (int64_t)b1, i2 = (int64_t)b2;       /* MathLib::toBigNumber: stoull result cast to bigint */
  int useU = (i1 == INT64_MAX) || (i2 == INT64_MAX);
  uint64_t u1 = useU ? b1 : 0, u2 = useU ? b2 : 0;  /* MathLib::toBigUNumber */
#ifdef KF_SIGNED_MAXLITERAL
  /* known finding: signed x and a literal == INT64_MAX: the code switches to unsigned arithmetic, which neither orders a negative
     literal correctly nor covers negative x */
  __CPROVER_assume(!(XSIGNED && useU));
#endif
#ifdef KF_UNSIGNED_BIGLITERAL
  /* known finding: unsigned x, a literal >= 2^63 is handled as a negative bigint unless some literal equals INT64_MAX */
  __CPROVER_assume(!(!XSIGNED && !useU && (i1 < 0 || i2 < 0)));
#endif
#ifdef K1
  /* sufficientCondition subtracts the literals: claimed only where that cannot overflow (|literal| < 2^62) */
  __CPROVER_assume(i1 > -(1LL << 62) && i1 < (1LL << 62) && i2 > -(1LL << 62) && i2 < (1LL << 62));
#endif
  struct sstr op1, op2; sstr_set(&op1, OPS[k1]); sstr_set(&op2, OPS[k2]);
  struct sstr lop; sstr_set(&lop, isAnd ? "&&" : "||");
  unsigned r = k_logic((uint8_t*)&op1, (uint8_t*)&op2, (uint8_t*)&lop, not1, not2, i1, i2, u1, u2, pw, ps);
  H_OUT("r", r);
  H_ASSERT(!__exc_pending, "no exception");
  unsigned reported = r & 3, always = (r >> 2) & 1; int which = 0; unsigned secondTrue = (r >> 16) & 1;
#ifdef K1
  if (reported == 2) which = (int)k_suff((uint8_t*)&op1, (uint8_t*)&op2, not1, not2, i1, i2, isAnd);
  H_OUT("which", which);
#endif
  int t1 = rel(k1, x, c1) ^ not1, t2 = rel(k2, x, c2) ^ not2;
  int whole = isAnd ? (t1 && t2) : (t1 || t2);
  H_ASSERT(!(reported == 1 && always) || whole, "reported 'always evaluates to true' holds for every x");
  H_ASSERT(!(reported == 1 && !always) || !whole, "reported 'always evaluates to false' holds for every x");
  H_ASSERT(!(reported == 1) || pw, "incorrectLogicOperator only with --enable=warning");
  H_ASSERT(!(reported == 2) || ps, "redundantCondition only with --enable=style");
  /* "If 'A', the comparison 'B' is always true":  A => B */
  H_ASSERT(!(reported == 2 && which == 0 && secondTrue) || (!t1 || t2), "'If cond1, cond2 is always true' holds for every x");
  H_ASSERT(!(reported == 2 && which == 0 && !secondTrue) || (!t2 || t1), "'If cond2, cond1 is always true' holds for every x");
  /* "The condition 'B' is redundant since 'A' is sufficient": whole == A.  sufficientCondition subtracts the literals:
     claimed only where that subtraction cannot overflow (the overflow itself is C13's business) */
  int small = (i1 > -(1LL << 62) && i1 < (1LL << 62) && i2 > -(1LL << 62) && i2 < (1LL << 62));
#ifdef K1
  H_ASSERT(!(reported == 2 && which == 1 && small) || (whole == t1), "'cond2 is redundant since cond1 is sufficient' holds for every x");
  H_ASSERT(!(reported == 2 && which == -1 && small) || (whole == t2), "'cond1 is redundant since cond2 is sufficient' holds for every x");
#else
  H_WITNESS(!(reported == 2), "a redundantCondition report is reachable");
#endif
#ifndef K1
  H_WITNESS(!(reported == 1 && always), "an always-true report is reachable");
  H_WITNESS(!(reported == 1 && !always), "an always-false report is reachable");
#endif
  H_WITNESS(0, "end of harness reachable");
}
