/* C33: match-compiled single-word test == interpreter Token::Match on one fabricated token (and on the null token) */
#define LL_ARENA_PTR_CELLS 64
#define LL_ARENA_T uint8_t
#include "harness.h"
#include "words.h"
static ll_Token tokobj; static ll_TokenImpl implobj;
void harness(void) {
  unsigned j = in_range(0, NCAND - 1); unsigned tt = in_range(0, NTOKTYPES - 1); unsigned vid = in_range(0, 2); int varid = (int)in_range(1, 2); unsigned isnull = in_range(0, 1);
  INVARIANT(j, tt);
#ifdef KF_OPTIONAL_WORD_AT_END
  /* known finding: on the null token (end of the token list) a word with an empty alternative ("abc|") matches in the compiled matcher but not in the interpreter */
  __CPROVER_assume(!(isnull && HAS_EMPTY_ALT));
#endif
  /* variables are names: Token::update_property_info gives every token with a varId the type eVariable */
  if (vid != 0) __CPROVER_assume(tt == TT_eVariable);
  tok_setup((uint8_t*)&tokobj, (uint8_t*)&implobj, tt, vid);
  struct sstr* s = (struct sstr*)tok_strfield((uint8_t*)&tokobj);
  for (unsigned c = 0; c < NCAND; c++) if (c == j) sstr_set(s, CAND[c]);
  uint8_t* t = isnull ? 0 : (uint8_t*)&tokobj;
  uint8_t a = MC(t, varid);
  int e1 = __exc_pending; __exc_pending = 0;
  uint8_t b = IN(t, varid);
  int e2 = __exc_pending; __exc_pending = 0;
  H_OUT("a", a); H_OUT("b", b);
  H_ASSERT(e1 == e2, "both throw or neither throws");
  H_ASSERT(e1 || e2 || (a != 0) == (b != 0), "match-compiled word test == Token::Match");
  H_WITNESS(!(a && b), "a matching token is reachable");
  H_WITNESS(0, "end of harness reachable");
}
