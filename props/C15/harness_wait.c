/* C21/L2: wait-status decision of ProcessExecutor::check: every abnormal status reaches reportInternalChildErr with the child's file name */
#define LL_ARENA_PTR_CELLS 64
#define LL_ARENA_T uint8_t
#include "harness.h"
void harness(void) {
  int stat = (int)in_u32();
  unsigned r = k_waitstatus(stat);
  H_OUT("r", r);
  H_ASSERT(!__exc_pending, "no exception");
  /* wait status encoding of Linux/glibc (bits/waitstatus.h) */
  int termsig = stat & 0x7f, exited = (termsig == 0), signaled = (((signed char)(termsig + 1)) >> 1) > 0, code = (stat >> 8) & 0xff;
  unsigned reports = r & 15, named = (r >> 4) & 1;
  if ((exited && code != 0) || signaled) { H_ASSERT(reports == 1 && named, "abnormal exit or signal => exactly one internal error naming the child's file"); }
  else if (exited) H_ASSERT(reports == 0, "a clean exit reports nothing");
  H_WITNESS(!(signaled && reports == 1), "a signalled child is reachable");
  H_WITNESS(0, "end of harness reachable");
}
