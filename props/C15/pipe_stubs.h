/* the pipe between PipeWriter and handleRead: write() appends, read() returns an arbitrary prefix of what was asked (symbolic schedule) */
#define PIPE_CAP 32
uint8_t g_pipe[PIPE_CAP]; uint64_t g_wpos, g_rpos; int g_closed; unsigned g_shortreads;
static uint32_t in_range(uint32_t lo, uint32_t hi);
uint64_t ll_write(uint32_t fd, uint8_t* buf, uint64_t n) { for (uint64_t i = 0; i < n; i++) { LL_ASSUME(g_wpos < PIPE_CAP); g_pipe[g_wpos++] = buf[i]; } return n; }
uint64_t ll_read(uint32_t fd, uint8_t* buf, uint64_t n) {
  uint64_t avail = g_wpos - g_rpos;
  if (avail == 0) { return 0; }            /* writer gone: EOF */
  uint64_t k = n < avail ? n : avail;
  if (n != 1 && n != 4 && k > 1) { uint64_t c = in_range(1, 8); if (c < k) { k = c; g_shortreads++; } }   /* payload reads (2, 3, 5.. bytes here) may be short; the 1-byte type and 4-byte length are written atomically */
  for (uint64_t i = 0; i < 8; i++) if (i < k) buf[i] = g_pipe[g_rpos + i];
  g_rpos += k; return k;
}
