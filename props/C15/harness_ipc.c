/* C15: PipeWriter::writeToPipe -> pipe -> ProcessExecutor::handleRead */
#define LL_ARENA_PTR_CELLS 64
#define LL_ARENA_T uint8_t
#define LL_EXTRA_STUBS "pipe_stubs.h"
#include "harness.h"
#ifdef NATIVE_REAL
/* native replay: the real code calls libc read()/write(); route them to the same harness pipe */
#define LL_ASSUME(c) do { if (!(c)) ll_native_assume_fail(#c); } while (0)
#include "pipe_stubs.h"
long read(int fd, void* b, unsigned long n) { return ll_read(fd, b, n); }
long write(int fd, const void* b, unsigned long n) { return ll_write(fd, (uint8_t*)b, n); }
#endif
#ifndef L
#define L 3
#endif
#define H_RESET() do { g_wpos = g_rpos = 0; g_shortreads = 0; } while (0)
enum { REPORT_OUT = '1', CHILD_END = '5', REPORT_METRIC = '6' };
static int pick_type(void) { unsigned k = in_range(0, 2); return k == 0 ? REPORT_OUT : k == 1 ? REPORT_METRIC : CHILD_END; }
static void check_delivery(int type, struct sstr* m, unsigned r, uint8_t* text, uint64_t tl, uint8_t color, uint32_t res0, uint32_t res1) {
  unsigned nout = (r >> 4) & 15, nmet = (r >> 8) & 15, nerr = (r >> 12) & 15;
  if (type == REPORT_OUT) {
    H_ASSERT(nout == 1 && nmet == 0 && nerr == 0 && (r & 1), "REPORT_OUT is delivered exactly once and the stream continues");
    int same = (tl == m->n - 1) && color == m->u.buf[0]; for (unsigned k = 0; k < L; k++) if (k + 1 < m->n && text[k] != m->u.buf[k + 1]) same = 0;
    H_ASSERT(same, "the logger receives the colour byte and exactly the message text");
  } else if (type == REPORT_METRIC) {
    H_ASSERT(nmet == 1 && nout == 0 && nerr == 0 && (r & 1), "REPORT_METRIC is delivered exactly once and the stream continues");
    int same = (tl == m->n); for (unsigned k = 0; k < L; k++) if (k < m->n && text[k] != m->u.buf[k]) same = 0;
    H_ASSERT(same, "the logger receives exactly the metric text");
  } else {
    H_ASSERT(nout + nmet + nerr == 0 && !(r & 1), "CHILD_END delivers nothing and ends the stream");
    H_ASSERT(res1 == res0 + (uint32_t)(m->u.buf[0] - '0'), "CHILD_END adds the child's result to the total");
  }
}
void harness(void) {
  H_RESET();
  struct sstr m1, m2; int t1 = pick_type(), t2 = pick_type();
  sstr_sym(&m1, 1, L); sstr_sym(&m2, 1, L);
  if (t1 == CHILD_END) { __CPROVER_assume(m1.n == 1 && m1.u.buf[0] >= '0' && m1.u.buf[0] <= '9'); }
  if (t2 == CHILD_END) { __CPROVER_assume(m2.n == 1 && m2.u.buf[0] >= '0' && m2.u.buf[0] <= '9'); }
  uint32_t res = in_u32(); uint32_t res0 = res; uint8_t text[8]; uint64_t tl = 0; uint8_t color = 0;
  k_write(t1, (uint8_t*)&m1);
#if MODE == 1
  __CPROVER_assume(t1 != CHILD_END);
  k_write(t2, (uint8_t*)&m2);
#endif
  uint64_t total = g_wpos;
  unsigned r = k_read((uint8_t*)&res, text, (uint8_t*)&tl, &color);
  H_OUT("r", r); H_OUT("res", res);
  H_ASSERT(!__exc_pending, "no exception");
  H_ASSERT(g_rpos == 5 + m1.n, "handleRead consumes exactly one message (type, length, payload)");
  check_delivery(t1, &m1, r, text, tl, color, res0, res);
#if MODE == 1
  uint32_t resm = res;
  r = k_read((uint8_t*)&res, text, (uint8_t*)&tl, &color);
  H_OUT("r2", r);
  H_ASSERT(g_rpos == total, "the second handleRead consumes exactly the second message");
  check_delivery(t2, &m2, r, text, tl, color, resm, res);
#endif
  /* C21: the worker is gone (EOF at a message boundary): the parent stops reading this pipe and counts a failure */
  uint32_t resb = res;
  r = k_read((uint8_t*)&res, text, (uint8_t*)&tl, &color);
  H_ASSERT(!(r & 1) && ((r >> 4) == 0), "EOF at a message boundary: handleRead reports 'child done' and delivers nothing");
  H_ASSERT(res == resb + 1, "EOF without CHILD_END increments the result (non-zero exit status)");
#if MODE == 0
  H_WITNESS(!(g_shortreads >= 1), "a schedule with a short read is reachable");
#else
  H_WITNESS(!(t1 == REPORT_OUT && t2 == REPORT_METRIC), "a stream with two different message kinds is reachable");
#endif
  H_WITNESS(0, "end of harness reachable");
}
