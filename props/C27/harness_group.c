/* C27/L2: SimpleEnableGroup<T> bit-set algebra */
#define LL_ARENA_PTR_CELLS 16
#include "harness.h"
void harness(void) {
  uint32_t init = in_u32(), other = in_u32(); int op = (int)in_range(0, 6); uint32_t flag = in_range(0, 31); uint8_t en = in_range(0, 1);
  uint32_t r = k_group(init, op, flag, other, en);
  H_OUT("r", r);
  uint32_t e;
  switch (op) { case 0: e = init | (1u << flag); break; case 1: e = init & ~(1u << flag); break; case 2: e = en ? (init | (1u << flag)) : (init & ~(1u << flag)); break;
                case 3: e = init | other; break; case 4: e = init & ~other; break; case 5: e = 0; break; default: e = 0xffffffffu; }
  H_ASSERT(r == e, "group operation == set algebra");
  H_WITNESS(0, "end of harness reachable");
}
