/* C27: a per-check guard block with two severities (CheckFunctions::memsetInvalid2ndParam, verbatim): monotone gating */
#define LL_ARENA_PTR_CELLS 16
#include "harness.h"
void harness(void) {
  uint8_t pw = in_range(0, 1), pp = in_range(0, 1), pw2 = in_range(0, 1), pp2 = in_range(0, 1), isnum = in_range(0, 1), isflt = in_range(0, 1);
  int64_t v = (int64_t)in_u64();
  unsigned a = k_memset(pw, pp, isnum, isflt, v);
  unsigned b = k_memset(pw | pw2, pp | pp2, isnum, isflt, v);
  H_OUT("a", a); H_OUT("b", b);
  H_ASSERT(!__exc_pending, "no exception");
  unsigned fa = a & 15, ra = a >> 4, fb = b & 15, rb = b >> 4;
  H_ASSERT(fa <= 1 && ra <= 1, "each finding at most once");
  H_ASSERT(!fa || pp, "memsetFloat (portability) only with --enable=portability");
  H_ASSERT(!ra || pw, "memsetValueOutOfRange (warning) only with --enable=warning");
  H_ASSERT(fa <= fb && ra <= rb, "enabling further severities never removes a reported finding");
  H_WITNESS(!(fa && ra), "both findings on one argument are reachable");
  H_WITNESS(0, "end of harness reachable");
}
