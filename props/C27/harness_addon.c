/* C27/L3: severity gate of CppCheck::executeAddons (verbatim slice) */
#define LL_ARENA_PTR_CELLS 64
#include "harness.h"
enum { SEV_NONE = 0, SEV_INTERNAL = 8 };
void harness(void) {
  uint32_t S = in_u32(), S2 = in_u32(); int name = (int)in_range(0, 10); uint8_t logc = in_range(0, 1), premium = in_range(0, 1);
  unsigned r1 = k_addon(S, name, logc, premium);
  unsigned r2 = k_addon(S | S2, name, logc, premium);
  H_OUT("r1", r1); H_OUT("r2", r2);
  H_ASSERT(!__exc_pending, "no exception");
  unsigned f1 = r1 & 1, s1 = (r1 >> 8) & 0xff, f2 = r2 & 1, s2 = (r2 >> 8) & 0xff;
  /* names: 0 "", 1 none, 2 error .. 8 debug, 9 internal, 10 unknown word */
  int sev = (name >= 2 && name <= 9) ? name - 1 : SEV_NONE;
  if (f1) {
    if (sev == SEV_NONE || sev == SEV_INTERNAL) H_ASSERT(logc && s1 == SEV_INTERNAL, "none/internal/unknown severities are forwarded only as -logChecker bookkeeping, with internal severity");
    else { H_ASSERT(s1 == (unsigned)sev, "severity is not altered"); H_ASSERT(premium || (S & (1u << sev)), "forwarded only if its severity is enabled (or explicitly enabled premium id)"); }
  }
  H_ASSERT(!f1 || (f2 && s2 == s1), "enabling further severities never removes or alters a forwarded addon finding");
  H_WITNESS(!(f1 && sev == 3), "a forwarded style finding is reachable");
  H_WITNESS(f1, "a dropped finding is reachable");
  H_WITNESS(0, "end of harness reachable");
}
