/* C27/L1: Settings::isEnabled(const ValueFlow::Value*, bool) -- monotone gating */
#define LL_ARENA_PTR_CELLS 16
#include "harness.h"
enum { SEV_WARNING = 2 }; enum { CERT_INCONCLUSIVE = 1 };
void harness(void) {
  uint32_t S = in_u32(), S2 = in_u32(), C = in_range(0, 3), C2 = in_range(0, 3);
  uint8_t cond = in_range(0, 1), defarg = in_range(0, 1), incv = in_range(0, 1), incc = in_range(0, 1);
  uint8_t a = k_isenabled(S, C, cond, defarg, incv, incc);
  uint8_t b = k_isenabled(S | S2, C | C2, cond, defarg, incv, incc);
  H_OUT("a", a); H_OUT("b", b);
  H_ASSERT(!__exc_pending, "no exception");
  H_ASSERT(!a || b, "enabled under (S,C) implies enabled under every superset (S',C')");
  H_ASSERT(!a || !(incv || incc) || (C & (1u << CERT_INCONCLUSIVE)), "an inconclusive value/check is enabled only with --inconclusive");
  H_ASSERT(!a || !(cond || defarg) || (S & (1u << SEV_WARNING)), "a value that depends on a condition or default argument is enabled only with --enable=warning");
  H_ASSERT(a || (incv || incc) || (cond || defarg), "a plain known value is always enabled");
  H_WITNESS(!a, "an enabled verdict is reachable");
  H_WITNESS(a, "a disabled verdict is reachable");
  H_WITNESS(0, "end of harness reachable");
}
