/* C04/L1: decision block of CheckType::checkTooBigBitwiseShift.  C11 6.5.7: UB iff the (promoted) right operand is negative or >=
   the width of the promoted left operand; E1 << E2 with signed E1 is additionally UB if E1*2^E2 is not representable -- for a shift
   count of width-1 that is every E1 other than 0; a RIGHT shift by width-1 is never UB. */
#define LL_ARENA_PTR_CELLS 64
#include "harness.h"
static const char* OPS[] = {"<<", ">>", "<<=", ">>="};
enum { T_BOOL = 8, T_CHAR = 9, T_SHORT = 10, T_INT = 12, T_LONG = 13, T_LONGLONG = 14 };
void harness(void) {
  unsigned k = in_range(0, 3);
  static const int TT[6] = {T_BOOL, T_CHAR, T_SHORT, T_INT, T_LONG, T_LONGLONG};
  int ltype = TT[in_range(0, 5)]; int lsign = (int)in_range(0, 2);
  unsigned ib = in_range(0, 1) ? 32 : 16, lb = in_range(0, 1) ? 64 : 32, llb = 64;
  int n = (int)in_range(0, 2); int64_t v0 = (int64_t)in_u64(), v1 = (int64_t)in_u64();
  uint8_t en0 = in_range(0, 1), en1 = in_range(0, 1);
  struct sstr op; sstr_set(&op, OPS[k]);
  uint64_t r = k_shift((uint8_t*)&op, ltype, lsign, ib, lb, llb, n, v0, v1, en0, en1);
  H_OUT("r", r);
  H_ASSERT(!__exc_pending, "no exception");
  unsigned kind = r & 0xff, bits = (r >> 8) & 0xff, which = (unsigned)(r >> 32);
  unsigned W = (ltype == T_LONG) ? lb : (ltype == T_LONGLONG) ? llb : ib;   /* width of the promoted left operand */
#ifdef KF_SIGNED_RIGHT_SHIFT
  __CPROVER_assume(!((k == 1 || k == 3) && kind == 2));
#endif
  if (kind) {
    H_ASSERT(which == 1 || which == 2, "the reported value is one of the operand's values");
    int64_t v = (which == 1) ? v0 : v1;
    H_ASSERT(which == 1 ? (n >= 1 && en0) : (n >= 2 && en1), "the reported value is listed and enabled by the severity settings");
    H_ASSERT(bits == W, "reported width is the width of the promoted left operand");
    if (kind == 1) H_ASSERT(v >= (int64_t)W, "shiftTooManyBits: shift count >= width (undefined behaviour)");
    if (kind == 2) {
      H_ASSERT(lsign == 1, "shiftTooManyBitsSigned only for a signed left operand");
      H_ASSERT(v >= (int64_t)W - 1, "shiftTooManyBitsSigned: shift count >= width-1");
      H_ASSERT(k == 0 || k == 2, "shiftTooManyBitsSigned only for LEFT shifts (x >> (width-1) is defined)");
    }
  }
  H_WITNESS(kind != 1, "a shiftTooManyBits report is reachable");
  H_WITNESS(kind != 2, "a shiftTooManyBitsSigned report is reachable");
  H_WITNESS(0, "end of harness reachable");
}
