/* C04/L2: decision block of CheckType::checkIntegerOverflow: a report for value v of a signed int/long/long long expression implies
   v is not representable in that type on the platform (C11 6.5p5: undefined behaviour). */
#define LL_ARENA_PTR_CELLS 64
#include "harness.h"
static const char* OPS[] = {"+", "-", "*", "/", "<<", ">>"};
enum { T_INT = 12, T_LONG = 13, T_LONGLONG = 14, T_SHORT = 10 };
void harness(void) {
  unsigned k = in_range(0, 5);
  static const int TT[4] = {T_SHORT, T_INT, T_LONG, T_LONGLONG};
  int rtype = TT[in_range(0, 3)]; int rsign = 1;   /* the guards in front of the block require a signed integral result */
  unsigned ib = in_range(0, 1) ? 32 : 16, lb = in_range(0, 1) ? 64 : 32, llb = 64;
  int n = (int)in_range(0, 2); int64_t v0 = (int64_t)in_u64(), v1 = (int64_t)in_u64();
  uint8_t en0 = in_range(0, 1), en1 = in_range(0, 1);
  struct sstr op; sstr_set(&op, OPS[k]);
  uint64_t r = k_ovf((uint8_t*)&op, rtype, rsign, ib, lb, llb, n, v0, v1, en0, en1);
  H_OUT("r", r);
  H_ASSERT(!__exc_pending, "no exception");
  unsigned reported = r & 1, over = (r >> 1) & 1, which = (unsigned)(r >> 32);
  if (reported) {
    H_ASSERT(rtype != T_SHORT, "only int, long, long long results are judged");
    unsigned bits = (rtype == T_INT) ? ib : (rtype == T_LONG) ? lb : llb;
    H_ASSERT(bits < 64, "no verdict for 64-bit types (not representable in bigint)");
    H_ASSERT(which == 1 || which == 2, "the reported value is one of the expression's values");
    int64_t v = (which == 1) ? v0 : v1;
    H_ASSERT(which == 1 ? (n >= 1 && en0) : (n >= 2 && en1), "the reported value is listed and enabled");
    if (bits < 64) {
      int64_t mx = (int64_t)((1ULL << (bits - 1)) - 1), mn = -mx - 1;
      H_ASSERT(v > mx || v < mn, "reported value is outside the range of the signed result type");
      H_ASSERT(over ? v > mx : v < mn, "'overflow' vs 'underflow' wording matches the direction");
    }
  }
  H_WITNESS(!(reported && over), "an overflow report is reachable");
  H_WITNESS(!(reported && !over), "an underflow report is reachable");
  H_WITNESS(0, "end of harness reachable");
}
