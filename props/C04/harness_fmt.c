/* C04/L5: the format-string walker of CheckNullPointer::parseFunctionCall (printf family, scan == false):
   an argument is marked "dereferenced" (=> nullPointer error if it is a null constant) only if the C11 7.21.6.1 reading of the format
   string assigns that argument to a %s or %n directive.  Only VALID format strings are considered (an invalid one is UB in the analysed program). */
#define LL_ARENA_PTR_CELLS 32
#include "harness.h"
#ifndef L
#define L 5
#endif
static int is_conv(uint8_t c) { return c == 's' || c == 'd' || c == 'n' || c == 'p' || c == 'x'; }
void harness(void) {
  struct sstr f; sstr_sym(&f, 0, L);
  for (unsigned i = 0; i < L; i++) { uint8_t c = f.u.buf[i]; if (i < f.n) __CPROVER_assume(c == '%' || c == '*' || c == '.' || c == '-' || c == '1' || c == 'l' || c == 'h' || c == 's' || c == 'd' || c == 'n' || c == 'p' || c == 'x' || c == 'a'); }
  int nargs = (int)in_range(1, 7);           /* args.size(): format string + up to 6 more */
  /* reference parser: %[-]*[width: '*' | digits][.prec: '*' | digits][h|hh|l|ll]conv   |   %%  ; deref mask = arguments of %s / %n */
  unsigned want = 0; int arg = 1, valid = 1; unsigned i = 0;
  for (unsigned step = 0; step < L; step++) {
    if (i >= f.n) break;
    if (f.u.buf[i] != '%') { i++; continue; }
    i++; if (i >= f.n) { valid = 0; break; }
    if (f.u.buf[i] == '%') { i++; continue; }
    for (unsigned k = 0; k < L; k++) if (i < f.n && f.u.buf[i] == '-') i++;
    if (i < f.n && f.u.buf[i] == '*') { arg++; i++; } else for (unsigned k = 0; k < L; k++) if (i < f.n && f.u.buf[i] == '1') i++;
    if (i < f.n && f.u.buf[i] == '.') { i++; if (i < f.n && f.u.buf[i] == '*') { arg++; i++; } else for (unsigned k = 0; k < L; k++) if (i < f.n && f.u.buf[i] == '1') i++; }
    if (i < f.n && f.u.buf[i] == 'h') { i++; if (i < f.n && f.u.buf[i] == 'h') i++; } else if (i < f.n && f.u.buf[i] == 'l') { i++; if (i < f.n && f.u.buf[i] == 'l') i++; }
    if (i >= f.n || !is_conv(f.u.buf[i])) { valid = 0; break; }
    if ((f.u.buf[i] == 's' || f.u.buf[i] == 'n') && arg < 32) want |= 1u << arg;
    arg++; i++;
  }
  __CPROVER_assume(valid);
  unsigned got = k_fmtwalk((uint8_t*)&f, nargs, 0);
  H_OUT("got", got);
  H_ASSERT(!__exc_pending, "no exception");
  H_ASSERT((got & ~want) == 0, "every argument marked as dereferenced belongs to a %s or %n directive");
  H_ASSERT((got >> nargs) == 0, "only existing arguments are marked");
  H_WITNESS(!(got != 0 && (want & 8u)), "a format with a * width followed by a marked %s is reachable");
  H_WITNESS(0, "end of harness reachable");
}
