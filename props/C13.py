"""C13 -- no crash / memory error / undefined behaviour / hang in cppcheck's own code (kernel: twin runs of the E1 harnesses).
Every obligation re-runs a harness of another property with -DC13MODE: the functional assertions are compiled out, functional preconditions are
dropped where the harness says so, and CBMC's standard checks (bounds, pointer, pointer-primitive, div-by-zero, signed overflow, undefined shift)
plus the unwinding assertions decide.  A failing check counts only if UBSan/ASan aborts the g++-built real code on the same input."""
import importlib.util, os
import vlib
from vlib import Unit, Obl

def _load(pid):
    spec = importlib.util.spec_from_file_location('prop_%s_for_C13' % pid, os.path.join(os.path.dirname(os.path.abspath(__file__)), pid + '.py'))
    m = importlib.util.module_from_spec(spec); spec.loader.exec_module(m); return m

_c01, _c10, _c12, _c23, _c26 = _load('C01'), _load('C10'), _load('C12'), _load('C23'), _load('C26')

def _u(src, name, new):
    u = (src.units() if callable(getattr(src, 'units', None)) else src.UNITS)[name]
    return Unit(new, wrapper=u.wrapper, wrapper_text=u.wrapper_text, libs=u.libs, roots=u.roots, cflags=u.cflags, types=u.types, cuts=u.cuts, shim=u.shim)

UNITS = {'c13_calc': _u(_c01, 'c01_calc', 'c13_calc'), 'c13_glob': _u(_c23, 'c23_glob', 'c13_glob'), 'c13_lit': _u(_c10, 'c10', 'c13_lit'),
         'c13_tobig': _u(_c10, 'c10_tobig', 'c13_tobig'), 'c13_pp': _u(_c12, 'c12', 'c13_pp'), 'c13_xml': _u(_c26, 'c26', 'c13_xml')}
META = {
    'assumptions': ['inputs are constrained only by their representation (valid std::string header, NUL-terminated buffer, length bound) plus the harness-specific bounds listed per obligation',
                    'operator new is the bump arena (no use-after-free/double-free detection); iostream and other externals are not entered',
                    'a CBMC standard-check failure becomes a VIOLATION only if UBSan/ASan aborts the natively built real function on the solver\'s input; otherwise it is printed as C13-REPORT for triage'],
    'outside': 'whole-process crash/hang freedom over arbitrary source files is a fuzzing property and outside this kernel-level claim',
}
def obligations(tier):
    o = []
    D = {'C13MODE': None}
    for k, nm in enumerate(_c01.NAMES):
        o.append(Obl('ub.calc.' + nm, 'c13_calc', 'props/C01/harness_calc.c', "calculate('%s') performs no undefined arithmetic/shift of its own for any operands" % _c01.OPS[k], 'all x,y : int64',
                     defines=dict(D, OPK=k), kind='c13', backend='z3' if _c01.OPS[k] in '*/%' else 'sat', timeout=600, tv=False))
    o.append(Obl('ub.truncate', 'c13_calc', 'props/C01/harness_trunc.c', 'truncateIntValue: no undefined shift/overflow', 'all v, size 0..8', defines=D, kind='c13', timeout=300, tv=False))
    L = 2
    o.append(Obl('mem.matchglob.L%d' % L, 'c13_glob', 'props/C23/harness_glob.c', 'matchglob: no out-of-bounds access, terminates within the discovered loop bounds', 'all patterns/names <= %d bytes' % L,
                 defines=dict(D, L=L), kind='c13', backend='slice', timeout=900, unwind_max=12, tv=False, hints={'ref.0': L + 4, 'ref.1': L + 4, 'sstr_sym.0': L + 1}))
    L = 3 if tier == 'quick' else 4
    o.append(Obl('mem.isint.L%d' % L, 'c13_lit', 'props/C10/harness_isint.c', 'MathLib::isInt & co: no out-of-bounds read for any byte string', 'all byte strings <= %d' % L, defines=dict(D, L=L), kind='c13', timeout=900, mem_gb=10, unwind_max=16, tv=False))
    o.append(Obl('mem.suffix.L%d' % L, 'c13_lit', 'props/C10/harness_suffix.c', 'isValidIntegerSuffix: no out-of-bounds read', 'all byte strings <= %d' % L, defines=dict(D, L=L), kind='c13', timeout=900, mem_gb=8, unwind_max=16, tv=False))
    o.append(Obl('mem.hasdefine.L%d' % L, 'c13_pp', 'props/C12/harness_hasdefine.c', 'hasDefine: no out-of-bounds access (operator[] at pos-1 / pos2)', '|userDefines| <= %d' % L, defines=dict(D, L=L), kind='c13', timeout=1200, mem_gb=10, unwind_max=16, tv=False))
    o.append(Obl('mem.toxml.L2', 'c13_xml', 'props/C26/harness_toxml.c', 'ErrorLogger::toxml: no out-of-bounds access', 'all byte strings <= 2', defines=dict(D, L=2), kind='c13', timeout=1500, mem_gb=12, unwind_max=40, max_rounds=40, tv=False))
    return o
MANIFEST = {
    'text': 'Bounded model checking of the kernels encoded for C01, C10, C12, C23 and C26 a second time with the functional assertions compiled out and CBMC\'s bounds, pointer, division, signed-overflow and shift checks plus unwinding assertions switched on: within the stated input bounds these functions perform no out-of-bounds access and no undefined arithmetic and terminate. A reported check failure is confirmed by UBSan/ASan on the natively built real function before it counts. Kernel-level.',
    'note': 'Trusted: clang-14 (its nsw/inbounds annotations decide what counts as overflow), ll2c.py, stubs.h, CBMC 6.11 + MiniSat/Z3, gcc UBSan/ASan for confirmation.',
    'engine': 'E1 ir2c + CBMC standard checks + UBSan/ASan replay',
}
