// C26: XML escaping of report text (lib/errorlogger.cpp)
#include "vwrap.h"
#include <cstring>
#include "errorlogger.h"
KVOID(k_toxml, (const std::string* in, unsigned char* out, unsigned long* outlen),
    const std::string r = ErrorLogger::toxml(*in); *outlen = r.size(); std::memcpy(out, r.data(), r.size() < 32 ? r.size() : 32);)
