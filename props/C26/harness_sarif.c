/* C26: SarifReport::serializeLocations (verbatim body, picojson replaced by a recording stand-in) */
#define LL_ARENA_PTR_CELLS 16
#include "harness.h"
void harness(void) {
  unsigned n = in_range(0, 2);
  int32_t line0 = (int32_t)in_u32(), line1 = (int32_t)in_u32(); uint32_t col0 = in_u32(), col1 = in_u32();
  int64_t out[8] = {0, 0, 0, 0, 0, 0, 0, 0};
  unsigned r = k_sarifloc(n, line0, col0, line1, col1, out);
  H_OUT("r", r);
  H_ASSERT(!__exc_pending, "no exception");
  H_ASSERT((r & 255) == n, "one SARIF location per call-stack entry");
  for (unsigned i = 0; i < 2; i++) if (i < n) {
    int32_t line = i ? line1 : line0; uint32_t col = i ? col1 : col0;
    H_ASSERT(((r >> (8 + 8 * i)) & 255) == 1, "artifactLocation.uri is the file name the text and XML reports print (getfile(false))");
    H_ASSERT(out[4 * i] == (line < 1 ? 1 : line) && out[4 * i + 2] == out[4 * i], "startLine/endLine are the 1-based line of the location");
    H_ASSERT(out[4 * i + 1] == (col < 1 ? 1 : (int64_t)col) && out[4 * i + 3] == out[4 * i + 1], "startColumn/endColumn are the 1-based column of the location");
  }
  H_WITNESS(!(n == 2 && line1 > 1), "a second location is reachable");
  H_WITNESS(0, "end of harness reachable");
}
