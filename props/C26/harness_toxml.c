/* C26/L1: ErrorLogger::toxml(s): the result is XML-attribute-safe for EVERY byte string s and decodes back to s
   (documented losses: NUL is written as the two characters \0, bytes outside printable ASCII / tab / LF / CR become 'x') */
#define LL_ARENA_PTR_CELLS 64
#define LL_ARENA_T uint8_t
#include "harness.h"
#ifndef L
#define L 2
#endif
#define OMAX (6 * L)
static int starts(const uint8_t* o, unsigned n, unsigned i, const char* lit) { unsigned k = 0; for (; lit[k]; k++) if (i + k >= n || o[i + k] != (uint8_t)lit[k]) return 0; return (int)k; }
void harness(void) {
  struct sstr s; sstr_sym0(&s, 0, L);
  /* bound: the escaped form fits std::string's local buffer (15 bytes); longer outputs are outside the claim */
  { unsigned tot = 0; for (unsigned i = 0; i < L; i++) if (i < s.n) { uint8_t c = s.u.buf[i]; tot += (c == '"' || c == '\'') ? 6 : (c == '&' || c == '\n' || c == '\t' || c == '\r') ? 5 : (c == '<' || c == '>') ? 4 : (c == 0) ? 2 : 1; } __CPROVER_assume(tot <= 15); }
  uint8_t out[32]; uint64_t n = 0; memset(out, 0, 32);
  k_toxml((uint8_t*)&s, out, (uint8_t*)&n);
  H_OUT("n", n);
  H_ASSERT(!__exc_pending, "no exception");
  H_ASSERT(n <= OMAX, "at most 6 output bytes per input byte");
  /* decode */
  unsigned i = 0, j = 0; int ok = 1;
  for (unsigned step = 0; step < L + 1; step++) {
    if (i >= n) break;
    uint8_t c = out[i]; int k; uint8_t d; unsigned adv = 1;
    if (c == '<' || c == '>' || c == '"' || c == '\'' || c < 0x20 || c > 0x7f) { ok = 0; break; }
    if (c == '&') {
      if ((k = starts(out, n, i, "&lt;"))) { d = '<'; adv = k; } else if ((k = starts(out, n, i, "&gt;"))) { d = '>'; adv = k; }
      else if ((k = starts(out, n, i, "&amp;"))) { d = '&'; adv = k; } else if ((k = starts(out, n, i, "&quot;"))) { d = '"'; adv = k; }
      else if ((k = starts(out, n, i, "&apos;"))) { d = '\''; adv = k; } else if ((k = starts(out, n, i, "&#10;"))) { d = '\n'; adv = k; }
      else if ((k = starts(out, n, i, "&#09;"))) { d = '\t'; adv = k; } else if ((k = starts(out, n, i, "&#13;"))) { d = '\r'; adv = k; }
      else { ok = 0; break; }
    } else if (c == '\\' && j < s.n && s.u.buf[j] == 0) { if (!(i + 1 < n && out[i + 1] == '0')) { ok = 0; break; } d = 0; adv = 2; }
    else d = c;
    if (j >= s.n) { ok = 0; break; }
    uint8_t src = s.u.buf[j];
    int printable = (src >= 0x20 && src <= 0x7e) || src == '\n' || src == '\t' || src == '\r' || src == 0;
    if (printable ? (d != src) : (d != 'x' && !(src == 0x7f && d == 0x7f))) { ok = 0; break; }
    i += adv; j++;
  }
  H_ASSERT(ok && i == n && j == s.n, "toxml output is XML-safe and decodes to the input (modulo the documented losses)");
  H_WITNESS(!(n >= 12), "an output of at least 12 bytes is reachable");
  H_WITNESS(0, "end of harness reachable");
}
