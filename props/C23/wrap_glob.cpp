// C23 / L1: the real matchglob + isValidGlobPattern (lib/utils.cpp)
#include "vwrap.h"
#include "utils.h"
KFN(bool, k_glob, (const std::string* p, const std::string* n, bool ci), return matchglob(*p, *n, ci);)
KFN(bool, k_validglob, (const std::string* p), return isValidGlobPattern(*p);)
