/* C23/L2: Suppression::isSuppressed(errmsg) == the documented decision table, for every combination of suppression kind, line rule,
   hash, block range, file/id/symbol presence and every newline-separated symbol list up to SL bytes.
   Result: 0 None (not applicable to this message), 1 Checked (applicable, did not match), 2 Matched. */
#define LL_ARENA_PTR_CELLS 64
#define LL_EXTRA_STUBS "supp_stubs.h"
#ifdef NATIVE_REAL
#include "supp_stubs_native.h"
#endif
#include "harness.h"
#ifndef SL
#define SL 4
#endif
enum { T_UNIQUE = 0, T_FILE = 1, T_BLOCK = 2, T_BLOCKBEGIN = 3, T_BLOCKEND = 4 };
#define NO_LINE (-1)
#define H_RESET() do { g_idcalls = g_filecalls = g_symcalls = 0; } while (0)
void harness(void) {
#ifdef CT
  int type = CT;
#else
  int type = (int)in_range(0, 4);
#endif
  int lineNumber = (int)in_u32(); uint8_t tanl = in_range(0, 1); uint64_t hash = in_u64(); int lb = (int)in_u32(), le = (int)in_u32();
  uint8_t hasFile = in_range(0, 1), hasId = in_range(0, 1), hasSym = in_range(0, 1), eIdEmpty = in_range(0, 1);
  int eLine = (int)in_u32(); uint64_t eHash = in_u64();
  g_idmatch = in_range(0, 1); g_filematch = in_range(0, 1);
  /* symbol list: bytes from {'a','b','\n'}; target symbol: 1..2 bytes from {'a','b'} */
  struct sstr syms; sstr_sym(&syms, 0, SL);
  for (unsigned i = 0; i < SL; i++) { uint8_t c = syms.u.buf[i]; if (i < syms.n) __CPROVER_assume(c == 'a' || c == 'b' || c == '\n'); }
  g_targetlen = in_range(1, 2);
  for (unsigned i = 0; i < 2; i++) { uint8_t c = in_u8(); g_target[i] = (c & 1) ? 'a' : 'b'; }
  __CPROVER_assume(lineNumber >= NO_LINE && lineNumber < 0x7ffffffe && eLine >= 0);
  H_RESET();
  int r = (int)k_issupp(type, lineNumber, tanl, hash, lb, le, hasFile, hasId, hasSym, eLine, eHash, eIdEmpty, (uint8_t*)&syms);
  H_OUT("r", r);
  H_ASSERT(!__exc_pending, "no exception");
  /* ---- reference (manual: "suppressions" chapter + comments in suppressions.h) ---- */
  int lineOk = !(type == T_UNIQUE && lineNumber != NO_LINE && lineNumber != eLine && !(tanl && lineNumber + 1 == eLine));
  int fileOk = !hasFile || g_filematch;
  int hashOk = !(hash > 0 && hash != eHash);
  int idOk = !hasId || (!eIdEmpty && g_idmatch);
  int blockOk = !(type == T_BLOCK && (eLine < lb || eLine > le));
  /* symbol names: '\n'-separated list; a suppression with symbolName matches if some listed name matches the glob */
  int symOk = 1;
  if (hasSym) {
    symOk = 0;
    unsigned start = 0;
    for (unsigned i = 0; i <= SL; i++) {
      if (i <= syms.n && (i == syms.n || syms.u.buf[i] == '\n')) {
        if (!(i == syms.n && start == syms.n)) {   /* no empty trailing name */
          unsigned len = i - start; int eq = (len == g_targetlen);
          for (unsigned j = 0; j < 2; j++) if (j < len && j < g_targetlen && syms.u.buf[start + j] != g_target[j]) eq = 0;
          if (eq) symOk = 1;
        }
        start = i + 1;
      }
    }
  }
  int expect = (!lineOk || !fileOk) ? 0 : (hashOk && idOk && blockOk && symOk) ? 2 : 1;
  H_ASSERT(r == expect, "isSuppressed == decision table (None / Checked / Matched)");
  H_ASSERT(g_filecalls <= 1 && g_idcalls <= 1, "file and id globs are consulted at most once");
  H_WITNESS(!(r == 2 && hasSym && syms.n >= 3), "a match on a later symbol of a multi-symbol finding is reachable");
  H_WITNESS(r != 1, "a Checked result is reachable");
  H_WITNESS(0, "end of harness reachable");
}
