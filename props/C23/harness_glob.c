/* C23/L1: matchglob(pattern,name) == documented glob semantics ('*' any sequence incl. empty, '?' exactly one char,
   anything else literal) for ALL patterns/names up to length L.
   -DVALID_ONLY: only patterns accepted by the real isValidGlobPattern (what addSuppression lets through for ids/files)
   -DCI: case-insensitive variant (tolower stub, "C" locale). */
#define LL_ARENA_PTR_CELLS 64
#include "harness.h"
#ifndef L
#define L 2
#endif
static uint8_t lc(uint8_t c) { return (c >= 'A' && c <= 'Z') ? c + 32 : c; }
/* reference as a DP table, no recursion: m[i][j] <=> p[i..] matches n[j..] */
static int ref(const uint8_t* p, unsigned pl, const uint8_t* n, unsigned nl, int ci) {
  uint8_t m[L + 2][L + 2];
  for (int i = L + 1; i >= 0; i--) for (int j = L + 1; j >= 0; j--) {
    uint8_t v;
    if (i > (int)pl || j > (int)nl) v = 0;
    else if (i == (int)pl) v = (j == (int)nl);
    else if (p[i] == '*') v = m[i + 1][j] || (j < (int)nl && m[i][j + 1]);
    else if (j == (int)nl) v = 0;
    else v = (p[i] == '?' || p[i] == n[j] || (ci && lc(p[i]) == lc(n[j]))) && m[i + 1][j + 1];
    m[i][j] = v;
  }
  return m[0][0];
}
void harness(void) {
  struct sstr pat, name;
  sstr_sym(&pat, 0, L); sstr_sym(&name, 0, L);
#ifdef CI
  int ci = 1;
#else
  int ci = 0;
#endif
#ifdef VALID_ONLY
  uint8_t valid = k_validglob((uint8_t*)&pat);
  __CPROVER_assume(valid);
#endif
#ifdef KF_STAR_WILDCARD
  /* known finding F1 blocked: a '*' directly followed by '*' or '?' */
  for (unsigned i = 0; i + 1 < L; i++) __CPROVER_assume(!(i + 1 < pat.n && pat.u.buf[i] == '*' && (pat.u.buf[i + 1] == '*' || pat.u.buf[i + 1] == '?')));
#endif
  uint8_t r = k_glob((uint8_t*)&pat, (uint8_t*)&name, ci);
  H_OUT("r", r);
  H_ASSERT(!__exc_pending, "matchglob does not throw");
  H_ASSERT((r != 0) == (ref(pat.u.buf, pat.n, name.u.buf, name.n, ci) != 0), "matchglob(pattern,name) == glob reference");
  H_WITNESS(!(r != 0 && pat.n == L && name.n == L), "a full-length match is reachable");
  H_WITNESS(0, "end of harness reachable");
}
