/* native replay: the same stub definitions are compiled as C and override the (unlinked) real matchers */
#include <stdint.h>
#include "supp_stubs.h"
