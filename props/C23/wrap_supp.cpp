// C23 / L2: the real SuppressionList::Suppression::isSuppressed (lib/suppressions.cpp).
// matchglob and PathMatch::match are NOT linked: the harness supplies them as functions of their arguments (props/C23/supp_stubs.h).
#include "vwrap.h"
#include "errortypes.h"
#include "suppressions.h"
#include "pathmatch.h"
KFN(int, k_issupp, (int type, int lineNumber, bool thisAndNextLine, unsigned long long hash, int lineBegin, int lineEnd, bool hasFile, bool hasId, bool hasSym,
                    int eLine, unsigned long long eHash, bool eIdEmpty, const std::string* eSymbols),
    SuppressionList::Suppression s;
    s.type = (SuppressionList::Type)type; s.lineNumber = lineNumber; s.thisAndNextLine = thisAndNextLine; s.hash = hash; s.lineBegin = lineBegin; s.lineEnd = lineEnd;
    if (hasFile) s.fileName = "F"; if (hasId) s.errorId = "I"; if (hasSym) s.symbolName = "S";
    SuppressionList::ErrorMessage e; e.hash = eHash; e.lineNumber = eLine; e.certainty = Certainty::normal;
    if (!eIdEmpty) e.errorId = "i";
    e.symbolNames = *eSymbols;
    return (int)s.isSuppressed(e);)
