/* uninterpreted-but-functional models of the two matchers isSuppressed calls (each verified on its own: matchglob in C23/L1,
   PathMatch in C31):  id glob "I" -> harness-chosen boolean; symbol glob "S" -> "name equals the harness-chosen target string";
   file glob -> harness-chosen boolean.  Calls are counted. */
struct sstr_;
uint8_t g_idmatch, g_filematch; uint8_t g_target[8]; uint64_t g_targetlen; unsigned g_idcalls, g_filecalls, g_symcalls;
uint8_t _Z9matchglobRKNSt7__cxx1112basic_stringIcSt11char_traitsIcESaIcEEES6_b(uint8_t* pattern, uint8_t* name, uint8_t ci) {
  uint8_t* pp = *(uint8_t**)pattern; uint8_t* np = *(uint8_t**)name; uint64_t nl = *(uint64_t*)(name + 8);
  if (pp[0] == 'I') { g_idcalls++; return g_idmatch; }
  g_symcalls++;
  if (nl != g_targetlen) return 0;
  for (uint64_t i = 0; i < 8; i++) if (i < nl && np[i] != g_target[i]) return 0;
  return 1;
}
uint8_t _ZN9PathMatch5matchERKNSt7__cxx1112basic_stringIcSt11char_traitsIcESaIcEEES7_S7_NS_8FilemodeENS_6SyntaxE(uint8_t* pattern, uint8_t* path, uint8_t* base, uint8_t mode, uint8_t syntax) {
  g_filecalls++; return g_filematch;
}
