/* C12: one step of the directive loop of getConfigs (verbatim) from an arbitrary stack state; strings and sets are abstract */
#define LL_ARENA_PTR_CELLS 16
#include "harness.h"
#define NCH 24
void harness(void) {
  unsigned kind = in_range(0, 7), depth = in_range(0, 3), fileIndex = in_range(0, 1);
  uint32_t ch[NCH];
  for (unsigned i = 0; i < NCH; i++) ch[i] = in_range(0, 7);
  unsigned r = k_cfgstep(kind, depth, fileIndex, ch, NCH);
  H_OUT("r", r);
  unsigned nif = r & 15, nifndef = (r >> 4) & 15, nins = (r >> 8) & 15, nbad = (r >> 12) & 15, flow = (r >> 16) & 1, hits = (r >> 20) & 15;
  H_ASSERT(!__exc_pending, "no exception");
#ifdef KF_GENERAL_CONFIG_CONTINUE
  /* known finding: '#ifdef X' / '#if' whose more general configuration is already in ret takes 'config.clear(); continue;' before the two push_backs */
  __CPROVER_assume(!((kind == 0 || kind == 2) && hits > 0 && nins == 0 && nif == depth && nifndef == depth));
#endif
  if (kind <= 2) {
    H_ASSERT(nif == depth + 1 && nifndef == depth + 1, "#ifdef/#ifndef/#if pushes exactly one entry on configs_if and on configs_ifndef");
  } else if (kind <= 4) {
    if (depth > 0) H_ASSERT(nif == depth && nifndef == depth, "#elif/#else keep the depth of both stacks (the guard of the enclosing conditional stays)");
  } else if (kind == 5) {
    if (depth > 0) H_ASSERT(nif == depth - 1 && nifndef == depth - 1, "#endif pops exactly one entry from both stacks");
  } else {
    H_ASSERT(nif == depth && nifndef == depth, "#error/#define do not change the stacks");
  }
  if (kind <= 4) H_ASSERT(nbad == 0, "every configuration inserted for #if/#elif/#else is built from configs_if");
  if (depth > 0 || kind <= 2) H_ASSERT(!flow, "no stack overflow/underflow");
  H_WITNESS(!(kind == 4 && depth == 2 && nins == 1), "an #else that inserts a configuration at depth 2 is reachable");
  H_WITNESS(!(kind == 0 && nins == 1), "an #ifdef that inserts a configuration is reachable");
  H_WITNESS(0, "end of harness reachable");
}
