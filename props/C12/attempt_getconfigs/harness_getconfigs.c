/* C12: getConfigs (verbatim, with cfg/sameline/gotoEndIf/getConfigsElseIsFalse) on a symbolic well-nested sequence of
   #ifdef / #ifndef / #else / #endif directives over distinct macros: every region is active in at least one configuration */
#define LL_ARENA_PTR_CELLS 64
#define LL_ARENA_T uint8_t
#include "harness.h"
#ifndef N
#define N 4
#endif
void harness(void) {
  uint8_t kinds[6] = {3, 3, 3, 3, 3, 3};
  const unsigned n = N;   /* the length is a constant per obligation (keeps the token layout concrete) */
  /* reference: the stack of open conditionals; region i (the code after directive i) needs need1[i] defined and need0[i] undefined */
  unsigned depth = 0, mac[N], pol[N], els[N], need1[N], need0[N], maxdepth = 0;
  for (unsigned i = 0; i < N; i++) { mac[i] = pol[i] = els[i] = need1[i] = need0[i] = 0; }
  for (unsigned i = 0; i < N; i++) {
    unsigned k = in_range(0, 3);
    if (i < n) {
      kinds[i] = (uint8_t)k;
      if (k < 2) { mac[depth] = i; pol[depth] = (k == 0); els[depth] = 0; depth++; }
      else if (k == 2) { __CPROVER_assume(depth > 0 && !els[depth - 1]); els[depth - 1] = 1; pol[depth - 1] ^= 1; }
      else { __CPROVER_assume(depth > 0); depth--; }
      if (depth > maxdepth) maxdepth = depth;
      for (unsigned d = 0; d < N; d++) if (d < depth) { if (pol[d]) need1[i] |= 1u << mac[d]; else need0[i] |= 1u << mac[d]; }
    }
  }
  __CPROVER_assume(depth == 0);
  unsigned masks[8] = {0, 0, 0, 0, 0, 0, 0, 0};
  unsigned r = k_getconfigs(kinds, n, masks);
  unsigned cnt = r & 255;
  H_OUT("r", r);
  for (unsigned j = 0; j < 8; j++) H_OUT("mask", masks[j]);
  H_ASSERT(!__exc_pending, "no exception");
  H_SAFETY(!(r & 256), "readcondition is not reached for #ifdef/#ifndef/#else/#endif");
  H_ASSERT(cnt >= 1 && cnt <= 8, "at least one configuration");
  unsigned allcovered = 1;
  for (unsigned i = 0; i < N; i++) if (i < n) {
    unsigned covered = 0;
    for (unsigned j = 0; j < 8; j++) if (j < cnt && (masks[j] & need1[i]) == need1[i] && (masks[j] & need0[i]) == 0) covered = 1;
    if (!covered) allcovered = 0;
  }
  H_ASSERT(allcovered, "every guarded region is active in at least one configuration returned by getConfigs");
  H_WITNESS(!(maxdepth >= (N >= 4 ? 2 : 1) && cnt >= 2), "a (nested) conditional with more than one configuration is reachable");
  H_WITNESS(0, "end of harness reachable");
}
