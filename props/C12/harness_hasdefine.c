/* C12: hasDefine(userDefines, cfgStr) */
#define LL_ARENA_PTR_CELLS 64
#define LL_ARENA_T uint8_t
#include "harness.h"
#ifndef L
#define L 4
#endif
#define CL 3
void harness(void) {
  struct sstr ud, cfg; sstr_sym(&ud, 0, L); sstr_sym(&cfg, 1, CL);
  /* cfg = NAME or NAME=VALUE with a non-empty NAME free of ';' */
  unsigned nl = cfg.n; for (unsigned i = CL; i-- > 0;) if (i < cfg.n && cfg.u.buf[i] == '=') nl = i;
  __CPROVER_assume(nl >= 1);
  for (unsigned i = 0; i < CL; i++) if (i < cfg.n) __CPROVER_assume(cfg.u.buf[i] != ';');
  /* precondition from the command line parser: every ';'-separated entry of userDefines contains '=' */
  { int has = 0, ok = 1; for (unsigned i = 0; i <= L; i++) { if (i <= ud.n && (i == ud.n || ud.u.buf[i] == ';')) { if (!has && !(i == ud.n && ud.n == 0)) ok = 0; has = 0; } else if (i < ud.n && ud.u.buf[i] == '=') has = 1; } __CPROVER_assume(ok); }
  uint8_t r = k_hasdefine((uint8_t*)&ud, (uint8_t*)&cfg);
  H_OUT("r", r);
  H_ASSERT(!__exc_pending, "no exception");
  /* reference: some entry's name (text before its first '=') equals cfg's name */
  int found = 0; unsigned start = 0;
  for (unsigned i = 0; i <= L; i++) {
    if (i <= ud.n && (i == ud.n || ud.u.buf[i] == ';')) {
      unsigned en = i - start; for (unsigned j = L; j-- > 0;) if (j < i && j >= start && ud.u.buf[j] == '=') en = j - start;
      int eq = (en == nl); for (unsigned j = 0; j < CL; j++) if (j < nl && j < en && ud.u.buf[start + j] != cfg.u.buf[j]) eq = 0;
      if (eq && i > start) found = 1;
      start = i + 1;
    }
  }
  H_ASSERT((r != 0) == (found != 0), "hasDefine == name membership in the -D list");
  H_WITNESS(!(r && ud.n == L), "a hit in a full-length list is reachable");
  H_WITNESS(0, "end of harness reachable");
}
