/* C12: isUndefined(cfgStr, undefined) -- verbatim body, set mocked */
#define LL_ARENA_PTR_CELLS 64
#define LL_ARENA_T uint8_t
#include "harness.h"
#ifndef L
#define L 4
#endif
void harness(void) {
  struct sstr cfg, u0, u1; sstr_sym(&cfg, 0, L); sstr_sym(&u0, 1, 1); sstr_sym(&u1, 1, 1); int n = (int)in_range(0, 2);
  __CPROVER_assume(u0.u.buf[0] != ';' && u0.u.buf[0] != '=' && u1.u.buf[0] != ';' && u1.u.buf[0] != '=');
  uint8_t r = k_isundefined((uint8_t*)&cfg, (uint8_t*)&u0, (uint8_t*)&u1, n);
  H_OUT("r", r);
  H_ASSERT(!__exc_pending, "no exception");
  /* reference: an item NAME or NAME=VALUE (VALUE != "0") of the ';'-separated cfg with NAME in U */
  int found = 0; unsigned start = 0;
  for (unsigned i = 0; i <= L; i++) {
    if (i <= cfg.n && (i == cfg.n || cfg.u.buf[i] == ';')) {
      unsigned len = i - start, nl = len; int haseq = 0;
      for (unsigned j = L; j-- > 0;) if (j < i && j >= start && cfg.u.buf[j] == '=') { nl = j - start; haseq = 1; }
      int inU = 0;
      if (nl == 1) { uint8_t c = cfg.u.buf[start]; if ((n >= 1 && c == u0.u.buf[0]) || (n >= 2 && c == u1.u.buf[0])) inU = 1; }
      int iszero = haseq && (len - nl == 2) && cfg.u.buf[start + nl + 1] == '0';
      if (inU && !(haseq && iszero) && !(i == cfg.n && start == cfg.n && cfg.n > 0 && 0)) found = 1;
      start = i + 1;
    }
  }
  if (cfg.n == 0) found = 0;
  H_ASSERT((r != 0) == (found != 0), "isUndefined == some item names a -U macro and does not define it as 0");
  H_WITNESS(!r, "a positive answer is reachable");
  H_WITNESS(0, "end of harness reachable");
}
