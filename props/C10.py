"""C10 -- literal and constant values match the compiler (kernel: MathLib classifiers and converters)."""
from vlib import Unit, Obl
UNITS = {'c10': Unit('c10', wrapper='props/C10/wrap.cpp', libs=['lib/mathlib.cpp', 'lib/errortypes.cpp', 'externals/simplecpp/simplecpp.cpp'],
                     roots=['k_isint', 'k_class', 'k_issuffix']),
         'c10_tobig': Unit('c10_tobig', wrapper='props/C10/wrap.cpp', libs=['lib/mathlib.cpp', 'lib/errortypes.cpp'], roots=['k_tobig', 'k_tobigu'],
                           cuts=['_ZN7MathLib14toDoubleNumberERKNSt7__cxx1112basic_stringIcSt11char_traitsIcESaIcEEEPK5Token',
                                 '_ZN9simplecpp20characterLiteralToLLERKNSt7__cxx1112basic_stringIcSt11char_traitsIcESaIcEEE']),
         'c10_char': Unit('c10_char', wrapper='props/C10/wrap.cpp', libs=['externals/simplecpp/simplecpp.cpp'], roots=['k_charlit'],
                          cuts=['_ZNSt7__cxx1112basic_stringIcSt11char_traitsIcESaIcEE9_M_mutateEmmPKcm'])}
META = {
    'assumptions': ['strings of bounded length over all byte values; std::stoull modelled by stubs.h ll_strtoull (C11 7.22.1.4, "C" locale)',
                    'reference grammar: C++17 [lex.icon] without digit separators; optional leading sign (cppcheck tokens may carry it)'],
    'outside': 'valueFlowNumber plumbing, sizeof simplification and floating values are outside the claim',
}
def obligations(tier):
    L = 4 if tier == 'quick' else 5
    return [
        Obl('isint.L%d' % L, 'c10', 'props/C10/harness_isint.c', 'valid integer literal => isInt; isInt => literal in the relaxed grammar; base classification', 'all byte strings, length <= %d' % L,
            defines={'L': L}, backend='sat', timeout=1500, mem_gb=10, unwind_max=16),
        Obl('suffix.L%d' % L, 'c10', 'props/C10/harness_suffix.c', 'standard integer-suffix => accepted => relaxed suffix language', 'all byte strings, length <= %d' % L,
            defines={'L': L}, backend='sat', timeout=900, mem_gb=8, unwind_max=16),
        Obl('tobig.L%d' % (L - 1), 'c10_tobig', 'props/C10/harness_tobig.c', 'toBigNumber/toBigUNumber == positional value (mod 2^64) of a valid literal', 'valid literals of length <= %d' % (L - 1),
            defines={'L': L - 1}, backend='sat', timeout=1500, mem_gb=12, unwind_max=24),
        Obl('charlit.L%d' % (L + 1), 'c10_char', 'props/C10/harness_charlit.c', 'characterLiteralToLL == value of a narrow character constant (simple/octal/hex escapes, multi-character constants)', "narrow literals '...' of total length <= %d, all bytes" % (L + 1),
            defines={'L': L + 1}, backend='sat', timeout=1800, mem_gb=12, unwind_max=24, max_rounds=30),
    ]
MANIFEST = {
    'text': 'Bounded model checking of the real MathLib::isInt/isDec/isIntHex/isOct/isBin/isValidIntegerSuffix and MathLib::toBigNumber/toBigUNumber (lib/mathlib.cpp, compiled to LLVM IR): for every byte string up to the bound the classifiers agree with the C++ integer-literal grammar and the converters return the positional value modulo 2^64. Kernel-level.',
    'note': 'Trusted: clang-14, ll2c.py (validated natively each run), strtoull stub, CBMC 6.11 + MiniSat. Bound: string length <= 4 (quick) / 5 (thorough), converters one less.',
}
