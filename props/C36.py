"""C36 -- the HTML report lists every reported finding (kernel: html_escape and CppCheckHandler of htmlreport/cppcheck-htmlreport).
Engine E3: CrossHair (Z3-backed symbolic execution of the real Python function bodies, extracted from the script at run time)."""
import ast, json, os, re, subprocess, sys, time

VERIF = os.path.dirname(os.path.dirname(os.path.abspath(__file__)))
REPO = os.environ.get('VERIF_REPO', '/repo')
WORK = os.path.join(os.environ.get('VERIF_WORK', os.path.join(VERIF, '.work')), 'c36')
SCRIPT = os.path.join(REPO, 'htmlreport', 'cppcheck-htmlreport')
WANT = {'html_escape_table', 'html_unescape_table', 'html_escape', 'CppCheckHandler', 'main:group', 'main:page'}

LEMMAS = r'''
# ------------------------------------------------------------------ lemmas (contracts checked by CrossHair)
def lemma_escape(text: str) -> bool:
    """
    pre: len(text) <= %(N)d
    post: __return__
    """
    r = html_escape(text)
    if any(c in r for c in '<>"\''):
        return False                       # no raw markup / quote characters survive
    i = 0
    while i < len(r):                      # every & starts one of the five entities
        if r[i] == '&' and not any(r.startswith(e, i) for e in ('&amp;', '&lt;', '&gt;', '&quot;', '&apos;')):
            return False
        i += 1
    return unescape(r, html_unescape_table) == text   # and nothing is lost

def witness_escape(text: str) -> bool:
    """
    pre: len(text) <= %(N)d
    post: __return__
    """
    return '&' not in html_escape(text)    # deliberately false: must be refuted (reachability witness)

def lemma_error(id: str, severity: str, msg: str, has_verbose: bool, verbose: str, has_cwe: bool, cwe: str, has_inc: bool) -> bool:
    """
    pre: len(id) <= %(M)d and len(severity) <= %(M)d and len(msg) <= %(M)d and len(verbose) <= %(M)d and len(cwe) <= %(M)d
    post: __return__
    """
    h = CppCheckHandler()
    attrs = {'id': id, 'severity': severity, 'msg': msg}
    if has_verbose: attrs['verbose'] = verbose
    if has_cwe: attrs['cwe'] = cwe
    if has_inc: attrs['inconclusive'] = 'true'
    h.startElement('results', {'version': '2'})
    h.startElement('error', attrs)
    if len(h.errors) != 1:
        return False                       # exactly one record per <error>
    e = h.errors[0]
    return (e['id'] == id and e['severity'] == severity and e['msg'] == msg and e['locations'] == [] and
            e.get('verbose') == (verbose if has_verbose else None) and e.get('cwe') == (cwe if has_cwe else None) and
            (('inconclusive' in e) == has_inc))

def lemma_location(file1: str, line1: int, file2: str, line2: int, two: bool) -> bool:
    """
    pre: len(file1) <= %(M)d and len(file2) <= %(M)d and 0 <= line1 <= 99999 and 0 <= line2 <= 99999
    post: __return__
    """
    h = CppCheckHandler()
    h.startElement('results', {'version': '2'})
    h.startElement('error', {'id': 'i', 'severity': 's', 'msg': 'm'})
    h.startElement('location', {'file': file1, 'line': str(line1)})
    if two:
        h.startElement('location', {'file': file2, 'line': str(line2)})
    e = h.errors[-1]
    locs = e['locations']
    return (len(h.errors) == 1 and e['file'] == file1 and e['line'] == line1 and len(locs) == (2 if two else 1) and
            locs[0]['file'] == file1 and locs[0]['line'] == line1 and (not two or (locs[1]['file'] == file2 and locs[1]['line'] == line2)))

def lemma_pages(same2: bool, g: int, l1: int, l2: int, gl: int, has_info: bool) -> bool:
    """
    pre: 0 <= g <= 2 and 0 <= l1 <= 99999 and 0 <= l2 <= 99999 and 0 <= gl <= 99999
    post: __return__
    """
    # file names: what matters is which of the three names coincide -- all five equality patterns are enumerated by (same2, g)
    f1 = 'a.c'
    f2 = 'a.c' if same2 else 'b.h'
    g1 = 'a.c' if g == 0 else ('b.h' if g == 1 else 'c.c')
    # finding A: primary location (f1,l1), secondary location (f2,l2); finding B: single location (g1,gl) -- as CppCheckHandler builds them
    A = {'file': f1, 'line': l1, 'id': 'a', 'severity': 'error', 'msg': 'ma', 'verbose': 'va', 'classification': '', 'guideline': '',
         'locations': [{'file': f1, 'line': l1, 'info': None}, {'file': f2, 'line': l2, 'info': ('note' if has_info else None)}]}
    B = {'file': g1, 'line': gl, 'id': 'b', 'severity': 'style', 'msg': 'mb', 'verbose': 'vb', 'classification': '', 'guideline': '',
         'locations': [{'file': g1, 'line': gl, 'info': None}]}
    files = slice_group([A, B], False, '')
    # every finding is grouped under its primary file, exactly once
    if len(files) != (1 if f1 == g1 else 2) or files[f1]['errors'][0] is not A or files[g1]['errors'][-1] is not B:
        return False
    if len(files[f1]['errors']) + (0 if f1 == g1 else len(files[g1]['errors'])) != 2:
        return False
    # a page shows a finding's locations IN THAT FILE, each at its own line
    shown = slice_page(f1, files[f1])
    got = [(e['id'], e['line']) for e in shown]
    want = [('a', l1)] + ([('a', l2)] if f2 == f1 else []) + ([('b', gl)] if g1 == f1 else [])
    if got != want:
        return False
    if g1 != f1:
        shown2 = slice_page(g1, files[g1])
        if [(e['id'], e['line']) for e in shown2] != [('b', gl)]:
            return False
    return True

def witness_location(file1: str, line1: int) -> bool:
    """
    pre: len(file1) <= %(M)d and 0 <= line1 <= 99999
    post: __return__
    """
    h = CppCheckHandler()
    h.startElement('results', {'version': '2'})
    h.startElement('error', {'id': 'i', 'severity': 's', 'msg': 'm'})
    h.startElement('location', {'file': file1, 'line': str(line1)})
    return h.errors[-1]['line'] != 7      # deliberately false
'''


def extract():
    src = open(SCRIPT, encoding='utf-8').read()
    tree = ast.parse(src)
    out = ['# GENERATED by props/C36.py from %s -- the definitions below are verbatim' % SCRIPT,
           'from xml.sax.saxutils import escape, unescape', 'from xml.sax.handler import ContentHandler as XmlContentHandler']
    found = set()
    for node in tree.body:
        names = set()
        if isinstance(node, (ast.FunctionDef, ast.ClassDef)):
            names = {node.name}
        elif isinstance(node, ast.Assign):
            names = {t.id for t in node.targets if isinstance(t, ast.Name)}
        if names & WANT:
            out.append(ast.get_source_segment(src, node))
            found |= names & WANT
    # verbatim loops of main(): grouping of findings per file, and the per-page selection of a finding's locations
    import textwrap
    mainfn = [n for n in tree.body if isinstance(n, ast.FunctionDef) and n.name == 'main']
    group = page = None
    if mainfn:
        for n in ast.walk(mainfn[0]):
            if isinstance(n, ast.For) and isinstance(n.target, ast.Name) and n.target.id == 'error':
                it = ast.get_source_segment(src, n.iter)
                if it == 'contentHandler.errors' and group is None and 'files[filename]' in ast.get_source_segment(src, n):
                    group = textwrap.dedent('    ' * 0 + ast.get_source_segment(src, n, padded=True))
                if it == "data['errors']" and page is None and 'newError' in ast.get_source_segment(src, n):
                    page = textwrap.dedent(ast.get_source_segment(src, n, padded=True))
    if group and page:
        found |= {'main:group', 'main:page'}
        out.append('def slice_group(errors_list, is_remote, source_dir):\n    class _CH: pass\n    contentHandler = _CH()\n    contentHandler.errors = errors_list\n    files = {}\n    file_no = 0\n'
                   + textwrap.indent(group, '    ') + '\n    return files')
        out.append('def slice_page(filename, data):\n    errors = []\n' + textwrap.indent(page, '    ') + '\n    return errors')
    return '\n\n'.join(out), found


def run(tier, seed, only=None, replay=None):
    t0 = time.time()
    os.makedirs(WORK, exist_ok=True)
    N, M = (2, 2) if tier == 'quick' else (3, 3)
    body, found = extract()
    ev_path = os.path.join(VERIF, 'evidence', 'C36.json')
    if found != WANT:
        print('STALE-ANCHOR htmlreport/cppcheck-htmlreport: definitions not found: %s' % sorted(WANT - found))
        write_ev(ev_path, tier, seed, [], 0, 0, time.time() - t0, 0, 'STALE-ANCHOR')
        return 3
    mod = os.path.join(WORK, 'c36mod.py')
    with open(mod, 'w') as fh:
        fh.write(body + '\n' + LEMMAS % {'N': N, 'M': M})
    if replay:
        rp = json.load(open(replay if os.path.isabs(replay) else os.path.join(VERIF, replay)))
        ok = native_call(mod, rp['function'], rp['call'])
        print('call %s -> %s' % (rp['call'], ok))
        print('REPRODUCED' if ok is False else 'not reproduced')
        return 1 if ok is False else 0
    budget = 150 if tier == 'quick' else 900
    cmd = ['python3-vt', '-m', 'crosshair', 'check', mod, '--per_condition_timeout', str(budget), '--report_all', '-v']
    print('[C36] tier=%s: CrossHair on html_escape (len<=%d) and CppCheckHandler (strings<=%d), extracted from %s' % (tier, N, M, SCRIPT), flush=True)
    p = subprocess.run(cmd, capture_output=True, text=True, timeout=budget * 6 + 120)
    out = p.stdout + p.stderr
    with open(os.path.join(WORK, 'crosshair.log'), 'w') as fh:
        fh.write(out)
    iters = sum(int(x) for x in re.findall(r'Number of iterations:\s+(\d+)', out))
    choices = len(re.findall(r'choose_possible\(\) SMT chose', out))
    # line number -> function name
    fn_at = {}
    for node in ast.parse(open(mod).read()).body:
        if isinstance(node, ast.FunctionDef):
            for ln in range(node.lineno, node.end_lineno + 1):
                fn_at[ln] = node.name
    res = {}
    for m in re.finditer(r'^%s:(\d+): (info|error): (.*)$' % re.escape(mod), out, re.M):
        fn = fn_at.get(int(m.group(1)))
        if fn:
            res.setdefault(fn, []).append((m.group(2), m.group(3)))
    results = []
    code = 0
    nviol = 0
    traces = 0
    os.makedirs(os.path.join(VERIF, 'replays'), exist_ok=True)
    for fn in ['lemma_escape', 'witness_escape', 'lemma_error', 'lemma_location', 'lemma_pages', 'witness_location']:
        msgs = res.get(fn, [])
        r = {'obligation': fn, 'bound': 'len(text) <= %d' % N if 'escape' in fn else 'attribute strings <= %d chars, line 0..99999' % M, 'messages': [m for _, m in msgs][:3]}
        confirmed = any(k == 'info' and 'Confirmed over all paths' in m for k, m in msgs)
        cex = [m for k, m in msgs if k == 'error' and 'when calling' in m]
        if fn.startswith('witness'):
            r['verdict'] = 'WITNESS-REFUTED' if cex else 'HARNESS-VACUOUS'
            if not cex:
                code = max(code, 4)
        elif confirmed:
            r['verdict'] = 'HOLDS'
        elif cex:
            call = re.search(r'when calling (\w+\(.*\)) \(which', cex[0]) or re.search(r'when calling (\w+\(.*\))', cex[0])
            callstr = call.group(1) if call else ''
            ok = native_call(mod, fn, callstr)
            traces += 1
            r['counterexample'] = callstr
            if ok is False:
                r['verdict'] = 'VIOLATION'
                nviol += 1
                rp = os.path.join(VERIF, 'replays', 'C36_%s.json' % fn)
                json.dump({'property': 'C36', 'function': fn, 'call': callstr}, open(rp, 'w'), indent=1)
                print('VIOLATION property=C36 replay=%s' % rp)
                print('   %s returns False in the system python3 (real function bodies)' % callstr)
                code = 1
            else:
                r['verdict'] = 'ENCODING-MISMATCH'
                code = max(code, 2) if code != 1 else 1
        else:
            r['verdict'] = 'INCONCLUSIVE'
            r['why'] = '; '.join(m for _, m in msgs)[:200] or 'no verdict within %ds' % budget
        results.append(r)
        print('  %-20s %-16s %s' % (fn, r['verdict'], r.get('counterexample', r.get('why', ''))), flush=True)
    # replay the witness counterexample too (shows the extracted code really runs)
    for fn in ('witness_escape',):
        for k, m in res.get(fn, []):
            c = re.search(r'when calling (\w+\(.*\)) \(which', m)
            if c and native_call(mod, fn, c.group(1)) is False:
                traces += 1
    write_ev(ev_path, tier, seed, results, iters, choices, time.time() - t0, nviol, '', traces)
    nh = sum(1 for r in results if r['verdict'] == 'HOLDS')
    print('[C36] %d lemmas: %d confirmed over all paths, %d violations; %.0fs' % (4, nh, nviol, time.time() - t0))
    return code


def native_call(mod, fn, callstr):
    """evaluate the counterexample call in the system python3 (not the CrossHair interpreter)"""
    if not callstr.startswith(fn + '('):
        return None
    prog = 'import importlib.util,sys\nspec=importlib.util.spec_from_file_location("m", %r)\nm=importlib.util.module_from_spec(spec)\nspec.loader.exec_module(m)\nprint(repr(eval(%r, vars(m))))' % (mod, callstr)
    try:
        r = subprocess.run(['python3', '-c', prog], capture_output=True, text=True, timeout=60)
    except subprocess.TimeoutExpired:
        return None
    o = r.stdout.strip()
    return True if o == 'True' else False if o == 'False' else None


def write_ev(path, tier, seed, results, iters, choices, wall, nviol, note='', traces=0):
    os.makedirs(os.path.dirname(path), exist_ok=True)
    ev = {'property_id': 'C36', 'tier': tier, 'seed': seed, 'level': 'model_checking',
          'coverage': {'states': max(1, iters), 'transitions': max(1, choices), 'traces_validated_against_impl': traces,
                       'samples': results or [{'note': note}],
                       'obligations': sum(1 for r in results if not r['obligation'].startswith('witness')),
                       'discharged': sum(1 for r in results if r['verdict'] == 'HOLDS'),
                       'checker_cmd': 'python3-vt -m crosshair check <module generated from htmlreport/cppcheck-htmlreport> --report_all',
                       'trusted_base': ['CrossHair 0.0.110 + Z3 (tooling venv)', 'ast extraction of the verbatim definitions'],
                       'explanation': 'states = execution paths CrossHair explored (sum of "Number of iterations"); transitions = SMT branch decisions; '
                                      '"Confirmed over all paths" = exhaustive within the len() preconditions. ' + note,
                       'outside_claim': 'page generation (main(), pygments), the index page and "exactly once across pages" are outside the claim'},
          'assumptions': ['string lengths bounded by the stated preconditions', 'xml.sax.saxutils.escape/unescape are executed symbolically by CrossHair as they are'],
          'wall_s': round(wall, 1), 'violations': nviol}
    json.dump(ev, open(path, 'w'), indent=1)


MANIFEST = {
    'text': 'Z3-backed symbolic execution (CrossHair) of the real html_escape and CppCheckHandler.startElement/handleVersion2 of htmlreport/cppcheck-htmlreport, extracted verbatim at run time: escaped text contains no markup characters and unescapes to the input; each <error> element yields exactly one record carrying its attributes and its <location> children in order. "Confirmed over all paths" within the stated string-length bounds. Kernel-level.',
    'note': 'Trusted: CrossHair 0.0.110, Z3, Python ast extraction. Bound: len(text) <= 2 (quick) / 3 (thorough).',
    'engine': 'E3 CrossHair',
    'technique': 'symbolic execution of the real Python functions with CrossHair (Z3); counterexamples re-evaluated in the system python3',
}
