/* C25/L1: exit-status tail of CppCheckExecutor::check_internal */
#define LL_ARENA_PTR_CELLS 16
#include "harness.h"
void harness(void) {
  uint32_t r = in_u32(), w = in_u32(); int exitCode = (int)in_u32();
  uint8_t info = in_range(0, 1), cfg = in_range(0, 1), xml = in_range(0, 1), safety = in_range(0, 1), sempty = in_range(0, 1), err = in_range(0, 1), crit = in_range(0, 1);
  int xmlver = (int)in_range(2, 3);
  int calls = 0;
  int rc = (int)k_tail(r, w, info, cfg, exitCode, xml, xmlver, safety, sempty, err, crit, (uint8_t*)&calls);
  H_OUT("rc", rc); H_OUT("calls", calls);
  H_ASSERT(!__exc_pending, "no exception");
  int unmatched_checked = (info || cfg) && !sempty;
  H_ASSERT(calls == (unmatched_checked ? 1 : 0), "unmatched suppressions are evaluated exactly when information/check-config is on and suppressions exist");
  int something = (r != 0) || (w != 0) || (unmatched_checked && err);
  if (!(safety && crit)) {
    H_ASSERT(rc == (something ? exitCode : 0), "exit status == --error-exitcode iff something was reported, else 0");
  } else {
    H_ASSERT(rc == 1, "safety mode with critical errors exits with failure");
  }
  H_WITNESS(!(rc != 0 && r == 0 && w == 0), "an exit code caused only by an unmatched suppression is reachable");
  H_WITNESS(0, "end of harness reachable");
}
