/* C25/L2: CppCheck::CppCheckLogger::reportErr (verbatim body, mocks for the collaborators) */
#define LL_ARENA_PTR_CELLS 64
#include "harness.h"
void harness(void) {
  int sev = (int)in_range(0, 8);   /* Severity enum: none,error,warning,style,performance,portability,information,debug,internal */
  int id = (int)in_range(0, 1);    /* 1 == a critical error id */
  uint8_t emptyText = in_range(0, 1), libRep = in_range(0, 1), safety = in_range(0, 1), emitDup = in_range(0, 1), dup = in_range(0, 1),
          useGlobal = in_range(0, 1), sGlobal = in_range(0, 1), sLocal = in_range(0, 1), sExplicit = in_range(0, 1), fGlobal = in_range(0, 1), fLocal = in_range(0, 1), hasAI = in_range(0, 1);
  /* a suppression that matches without the global list also matches with it */
  __CPROVER_assume(!sLocal || sGlobal);
  __CPROVER_assume(!fLocal || fGlobal);   /* same for the --exitcode-suppressions list: fGlobal = some entry matches, fLocal = a file-local entry matches */
  unsigned r = k_report(sev, id, emptyText, libRep, safety, emitDup, dup, useGlobal, sGlobal, sLocal, sExplicit, fGlobal, fLocal, hasAI);
  H_OUT("r", r);
  H_ASSERT(!__exc_pending, "no exception");
  unsigned exitc = r & 0xf, fwd = (r >> 4) & 0xf, fwdInternal = (r >> 8) & 0xf, ai = (r >> 12) & 0xf;
  int internal = (sev == 8);
  int S1 = useGlobal ? sGlobal : sLocal;        /* nomsg.isSuppressed(errorMessage, mUseGlobalSuppressions) */
  int visible = !emptyText && !(dup && !emitDup);
  if (internal) {
    H_ASSERT(fwd == 1 && exitc == 0, "internal messages are always forwarded and never change the exit code");
  } else if (!libRep) {
    H_ASSERT(fwd == 0 && exitc == 0 && ai == 0, "findings in files the library configuration excludes are dropped");
  } else if (!safety) {
    H_ASSERT(fwd == ((!S1 && visible) ? 1u : 0u), "forwarded iff not suppressed, non-empty and not a duplicate");
    H_ASSERT(fwdInternal == 0, "severity is not altered");
    H_ASSERT(exitc == ((!S1 && visible && !fGlobal && !sGlobal) ? 1u : 0u), "exit code set iff the finding is shown and not matched by --exitcode-suppressions");
    H_ASSERT(ai == ((visible && hasAI) ? 1u : 0u), "analyzer information records every distinct non-empty finding, suppressed or not");
  }
  H_WITNESS(!(fwd == 1 && exitc == 0 && !internal), "a shown finding hidden from the exit code by --exitcode-suppressions is reachable");
  H_WITNESS(!(fwd == 1 && exitc == 1), "a shown finding that sets the exit code is reachable");
  H_WITNESS(0, "end of harness reachable");
}
