/* C01/L5: slices of getExpressionRange + valueFlowRightShift (lib/valueflow.cpp): if `E >> k` is given the KNOWN value 0,
   then for every value of the unknown variables in E (unsigned ones non-negative) the C value of E >> k is 0 */
#define LL_ARENA_PTR_CELLS 16
#include "harness.h"
static int evalop(int op, int64_t x, int64_t y, int64_t* r) {   /* returns 0 if the C operation is undefined */
  if (op == 0) { *r = x & y; return 1; }
  if (op == 1) { if (y == 0 || (x == INT64_MIN && y == -1)) return 0; *r = x % y; return 1; }
  return 0;
}
void harness(void) {
  int shape = (int)in_range(0, 2), op1 = (int)in_range(0, 2), op2 = (int)in_range(0, 2);
  uint8_t ka = in_range(0, 1), ua = in_range(0, 1), kb = in_range(0, 1), ub = in_range(0, 1), kc = in_range(0, 1), uc = in_range(0, 1);
  int64_t va = (int64_t)in_u64(), vb = (int64_t)in_u64(), vc = (int64_t)in_u64();   /* constants (if known) */
  int64_t xa = (int64_t)in_u64(), xb = (int64_t)in_u64(), xc = (int64_t)in_u64();   /* runtime values of the unknown variables */
  int64_t rhs = (int64_t)in_range(0, 63);
#ifdef KF_AND_BOTH_RANGES
  /* known finding: A & B with BOTH operand ranges known takes max = maxA & maxB (not an upper bound) */
  __CPROVER_assume(!(op1 == 0 && (ka || 0) && 0));
#endif
  int r = (int)k_rshift(shape, op1, op2, ka, va, ua, kb, vb, ub, kc, vc, uc, rhs);
  H_OUT("r", r);
  H_ASSERT(!__exc_pending, "no exception");
  H_ASSERT(r == 0 || r == 1, "only the known value 0 is ever set, at most once");
  if (r == 1) {
    int64_t a = ka ? va : xa, b = kb ? vb : xb, c = kc ? vc : xc, ab, e;
    /* an unsigned variable holds a non-negative value (63-bit model) */
    int ok = (ka || !ua || a >= 0) && (kb || !ub || b >= 0) && (kc || !uc || c >= 0);
    ok = ok && evalop(op1, a, b, &ab);
    if (shape == 0) e = ab; else if (shape == 1) ok = ok && evalop(op2, ab, c, &e); else ok = ok && evalop(op2, c, ab, &e);
    if (ok) H_ASSERT((e >> rhs) == 0, "E >> k really is 0 for these variable values");
  }
  H_WITNESS(r != 1, "a known-0 result is reachable");
  H_WITNESS(0, "end of harness reachable");
}
