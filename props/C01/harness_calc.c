/* C01/L1: calculate<bigint,bigint>(op,x,y,&err): whenever it does not set *err, the result is the C value of
   `x op y` on a 64-bit signed integer, for ALL x,y for which that C expression is defined (no signed overflow,
   no division by zero / INT64_MIN/-1, shift count in range and non-negative operands).  One obligation per operator (-DOPK). */
#include "harness.h"
static const char* OPS[] = {"+","-","*","/","%","&","|","^","<",">","<<",">>","&&","||","==","!=",">=","<=","<=>"};
void harness(void) {
  unsigned k = OPK;
  struct sstr op; sstr_set(&op, OPS[k]);
  int64_t x = (int64_t)in_u64(), y = (int64_t)in_u64();
  uint8_t err = 0;
  int64_t t;
  /* precondition: the analysed program's expression is free of UB at 64 bit (dropped in the C13 twin unless the known finding is blocked) */
#if !defined(C13MODE) || defined(KF_SIGNED_OVERFLOW_IN_CALCULATE)
  if (k == 0) __CPROVER_assume(!__builtin_add_overflow(x, y, &t));
  if (k == 1 || k == 18) __CPROVER_assume(!__builtin_sub_overflow(x, y, &t));
  if (k == 2) __CPROVER_assume(!__builtin_mul_overflow(x, y, &t));
#endif
  int64_t r = (int64_t)k_calc((uint8_t*)&op, (uint64_t)x, (uint64_t)y, &err);
  H_OUT("err", err); H_OUT("r", r);
  H_ASSERT(!__exc_pending, "no exception for a known operator");
  if (!err) {
    int64_t e = 0; int def = 1;
    switch (k) {
      case 0: e = x + y; break; case 1: e = x - y; break; case 2: e = x * y; break;
      case 3: def = (y != 0 && !(x == INT64_MIN && y == -1)); if (def) e = x / y; break;
      case 4: def = (y != 0 && !(x == INT64_MIN && y == -1)); if (def) e = x % y; break;
      case 5: e = x & y; break; case 6: e = x | y; break; case 7: e = x ^ y; break;
      case 8: e = x < y; break; case 9: e = x > y; break;
      case 10: def = (y >= 0 && y < 64 && x >= 0 && (y == 0 || (x >> (63 - y)) == 0)); if (def) e = (int64_t)((uint64_t)x << y); break;
      case 11: def = (y >= 0 && y < 64 && x >= 0); if (def) e = x >> y; break;
      case 12: e = x && y; break; case 13: e = x || y; break; case 14: e = x == y; break; case 15: e = x != y; break;
      case 16: e = x >= y; break; case 17: e = x <= y; break; default: e = (x > y) - (x < y); break;
    }
    if (k == 18) {
      H_ASSERT((r < 0) == (e < 0) && (r == 0) == (e == 0), "<=> result has the sign of the three-way comparison");
    } else if (k == 10) {
      /* a left shift that overflows is UB in the analysed program: any result allowed there */
      H_ASSERT(y >= 0 && y < 64 && x >= 0, "folded << only with defined shift count and non-negative lhs");
      H_ASSERT(!def || r == e, "calculate == C semantics on 64-bit");
    } else {
      H_ASSERT(def, "folded only where the C expression is defined");
      H_ASSERT(!def || r == e, "calculate == C semantics on 64-bit");
    }
  }
  H_WITNESS(err, "a folded (non-error) result is reachable");
  H_WITNESS(0, "end of harness reachable");
}
