// C01: the arithmetic kernels value-flow folding rests on (lib/calculate.h, lib/vf_common.cpp)
#include "vwrap.h"
#include "calculate.h"
#include "mathlib.h"
#include "vf_common.h"
#include "vfvalue.h"
#include "symboldatabase.h"
KFN(long long, k_calc, (const std::string* op, long long x, long long y, bool* err), return calculate<MathLib::bigint, MathLib::bigint>(*op, x, y, err);)
KFN(long long, k_trunc, (long long v, size_t sz, int sign), return ValueFlow::truncateIntValue(v, sz, (ValueType::Sign)sign);)
