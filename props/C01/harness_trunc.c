/* C01/L2 (= C10/L5): truncateIntValue(v,size,sign) == C conversion of v to the size-byte integer type of that signedness */
#include "harness.h"
void harness(void) {
  int64_t v = (int64_t)in_u64();
  unsigned size = in_range(0, 8);
  unsigned sign = in_range(0, 2); /* ValueType::Sign UNKNOWN_SIGN=0, SIGNED=1, UNSIGNED=2 */
  int64_t r = (int64_t)k_trunc((uint64_t)v, size, sign);
  H_OUT("r", r);
  int64_t e;
  if (size == 0) e = v;
  else if (size == 8) e = v;
  else {
    uint64_t mask = (1ULL << (8 * size)) - 1, u = (uint64_t)v & mask;
    if (sign == 1 && (u >> (8 * size - 1))) e = (int64_t)(u | ~mask); else e = (int64_t)u;
  }
  H_ASSERT(r == e, "truncateIntValue == C integer conversion (modulo 2^(8*size), sign-extended for signed)");
  H_WITNESS(!(size == 2 && sign == 1 && r < 0), "a negative 16-bit result is reachable");
  H_WITNESS(0, "end of harness reachable");
}
