/* C19: option sets A and B differ in exactly one option (FIELD) => the tool-info strings differ */
#define LL_ARENA_PTR_CELLS 96
#define LL_ARENA_T uint8_t
#include "harness.h"
struct opts { uint32_t sev; uint8_t inc; uint32_t checks; struct sstr defines; uint8_t cfg, force; int maxcfg, level; uint8_t hasAddon; struct sstr aname, aargs, premium, product, undefs;
              int stdc, stdcpp, lang, platform; uint32_t szInt, szLong, szPtr; uint8_t psign; struct sstr libs; };
static void run(struct opts* o, uint8_t* out, uint32_t* len) {
  memset(out, 0, 160);
  k_toolinfo(o->sev, o->inc, o->checks, (uint8_t*)&o->defines, o->cfg, o->force, o->maxcfg, o->level, o->hasAddon, (uint8_t*)&o->aname, (uint8_t*)&o->aargs, (uint8_t*)&o->premium,
             (uint8_t*)&o->product, (uint8_t*)&o->undefs, o->stdc, o->stdcpp, o->lang, o->platform, o->szInt, o->szLong, o->szPtr, o->psign, (uint8_t*)&o->libs, out, (uint8_t*)len);
}
static void fix(struct sstr* s) { s->p = s->u.buf; }
/* Platform::Type: 0 Unspecified, 1 Native, 2 Win32A, 3 Win32W, 4 Win64, 5 Unix32, 6 Unix64, 7 File.  Built-in platforms fix the sizes; a platform FILE may declare any */
static void platform_sizes(struct opts* o, uint32_t a, uint32_t b, uint32_t c, uint8_t s) {
  if (o->platform == 7) { o->szInt = 1 + (a & 7); o->szLong = 1 + (b & 7); o->szPtr = 1 + (c & 7); o->psign = (s & 1) ? 'u' : 's'; }
  else { o->szInt = 4; o->szLong = (o->platform == 6 || o->platform == 1) ? 8 : 4; o->szPtr = (o->platform == 4 || o->platform == 6 || o->platform == 1) ? 8 : 4; o->psign = (o->platform >= 2 && o->platform <= 4) ? 's' : 0; }
}
static int streq(struct sstr* a, struct sstr* b) { if (a->n != b->n) return 0; for (unsigned i = 0; i < 1; i++) if (i < a->n && a->u.buf[i] != b->u.buf[i]) return 0; return 1; }
enum { SEV_WARNING = 2, SEV_STYLE = 3, SEV_PERFORMANCE = 4, SEV_PORTABILITY = 5, SEV_INFORMATION = 6 };
void harness(void) {
  struct opts A, B; uint8_t outA[160], outB[160]; uint32_t lenA = 0, lenB = 0;
  A.sev = in_u32(); A.inc = in_range(0, 1); A.checks = in_u32(); sstr_sym(&A.defines, 0, 1); A.cfg = in_range(0, 1); A.force = in_range(0, 1); A.maxcfg = (int)in_u32(); A.level = (int)in_range(0, 3);
  A.hasAddon = 1; sstr_sym(&A.aname, 0, 1); sstr_sym(&A.aargs, 0, 1); sstr_sym(&A.premium, 0, 1); sstr_sym(&A.product, 0, 1); sstr_sym(&A.undefs, 0, 1);
  A.stdc = (int)in_range(0, 4); A.stdcpp = (int)in_range(0, 7); A.lang = (int)in_range(0, 2); A.platform = (int)in_range(0, 7); platform_sizes(&A, in_u32(), in_u32(), in_u32(), in_u8()); sstr_sym(&A.libs, 0, 1);
  B = A; fix(&B.defines); fix(&B.aname); fix(&B.aargs); fix(&B.premium); fix(&B.product); fix(&B.undefs); fix(&B.libs);
  struct sstr alt; sstr_sym(&alt, 0, 1); uint32_t altv = in_u32();
  switch (FIELD) {
    case 0: B.sev = A.sev ^ (1u << SEV_WARNING); break; case 1: B.sev = A.sev ^ (1u << SEV_STYLE); break; case 2: B.sev = A.sev ^ (1u << SEV_PERFORMANCE); break;
    case 3: B.sev = A.sev ^ (1u << SEV_PORTABILITY); break; case 4: B.sev = A.sev ^ (1u << SEV_INFORMATION); break;
    case 5: B.defines = alt; fix(&B.defines); __CPROVER_assume(!streq(&A.defines, &B.defines)); break;
    case 6: B.cfg = !A.cfg; break; case 7: B.force = !A.force; break;
    case 8: B.maxcfg = (int)altv; __CPROVER_assume(B.maxcfg != A.maxcfg); break;
    case 9: B.level = (int)(altv & 3); __CPROVER_assume(B.level != A.level); break;
    case 10: B.aname = alt; fix(&B.aname); __CPROVER_assume(!streq(&A.aname, &B.aname)); break;
    case 11: B.aargs = alt; fix(&B.aargs); __CPROVER_assume(!streq(&A.aargs, &B.aargs)); break;
    case 12: B.premium = alt; fix(&B.premium); __CPROVER_assume(!streq(&A.premium, &B.premium)); break;
    case 13: B.product = alt; fix(&B.product); __CPROVER_assume(!streq(&A.product, &B.product) && A.product.n > 0 && B.product.n > 0); break;
    case 14: B.inc = !A.inc; break;
    case 15: B.undefs = alt; fix(&B.undefs); __CPROVER_assume(!streq(&A.undefs, &B.undefs)); break;
    case 16: B.stdc = (int)(altv % 5); B.stdcpp = (int)((altv >> 8) % 8); __CPROVER_assume(B.stdc != A.stdc || B.stdcpp != A.stdcpp); break;
    case 17: B.lang = (int)(altv % 3); __CPROVER_assume(B.lang != A.lang); break;
    case 18: B.platform = (int)(altv % 8); platform_sizes(&B, altv >> 4, altv >> 8, altv >> 12, (uint8_t)(altv >> 16));
             __CPROVER_assume(B.platform != A.platform || B.szInt != A.szInt || B.szLong != A.szLong || B.szPtr != A.szPtr || B.psign != A.psign); break;
    case 19: B.libs = alt; fix(&B.libs); __CPROVER_assume(!streq(&A.libs, &B.libs)); break;
    default: B.checks = A.checks ^ 1u; break;
  }
  run(&A, outA, &lenA); run(&B, outB, &lenB);
  H_ASSERT(!__exc_pending, "no exception");
  int same = (lenA == lenB);
  for (unsigned i = 0; i < 160; i++) if (i < lenA && outA[i] != outB[i]) same = 0;
  H_ASSERT(lenA <= 160 && lenB <= 160, "the byte log holds the whole key string");
  H_OUT("lenA", lenA); H_OUT("same", same);
  H_ASSERT(!same, "changing this option changes the cache key string");
  H_WITNESS(!(lenA > 8), "a key string of more than 8 bytes is reachable");
  H_WITNESS(0, "end of harness reachable");
}
