/* C30: the interval loop of Library::isIntArgValid on one shipped <valid> expression (CASE), all argument values */
#define LL_ARENA_PTR_CELLS 96
#define LL_ARENA_T uint8_t
#include "harness.h"
#include "valid_cases.h"
void harness(void) {
  int64_t v = (int64_t)in_u64();
  uint8_t r = k_intargvalid(CASE, v);
  H_OUT("r", r);
  H_ASSERT(!__exc_pending, "no exception");
  int in = 0;
  for (int i = 0; i < 4; i++) if (i < CASE_NIV[CASE]) { const struct iv* x = &CASE_IV[CASE][i]; if ((!x->haslo || v >= x->lo) && (!x->hashi || v <= x->hi)) in = 1; }
  H_ASSERT((r != 0) == (in != 0), "isIntArgValid <=> argument in the declared set");
  H_WITNESS(!r, "a valid argument exists");
  H_WITNESS(r, "an invalid argument exists");
  H_WITNESS(0, "end of harness reachable");
}
