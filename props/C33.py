"""C33 -- compiled token-pattern matching equals the pattern language (per-word lemma).
At run time: tools/matchcompiler.py is run on /repo/lib (exactly what the build does), every distinct pattern WORD is collected, the match compiler is run
again on a synthetic file with one single-word Token::Match per word, and for each word the generated matcher is compared with the interpreter
Token::Match on one fabricated token (text, token type, varId symbolic)."""
import glob, hashlib, json, os, re, subprocess, sys
import vlib
from vlib import Unit, Obl

BATCH = 48
_cache = {}

TOKTYPES = ['eVariable', 'eType', 'eFunction', 'eKeyword', 'eName', 'eNumber', 'eString', 'eChar', 'eBoolean', 'eLiteral', 'eEnumerator',
            'eArithmeticalOp', 'eComparisonOp', 'eAssignmentOp', 'eLogicalOp', 'eBitOp', 'eIncDecOp', 'eExtendedOp', 'eBracket', 'eLambda', 'eEllipsis', 'eOther', 'eNone']


def tok_types_table():
    """the literal -> token types table the match compiler relies on (parsed from tools/matchcompiler.py)"""
    src = open(os.path.join(vlib.REPO, 'tools', 'matchcompiler.py')).read()
    m = re.search(r'^tokTypes = \{(.*?)^\}', src, re.S | re.M)
    tab = {}
    for mm in re.finditer(r"'([^']+)':\s*\[([^\]]*)\]", m.group(1)):
        tab[mm.group(1)] = re.findall(r"'(\w+)'", mm.group(2))
    return tab


KW_HELPER = r'''
#include "keywords.h"
#include "standards.h"
#include <cstdio>
#include <set>
#include <string>
int main() {
  std::set<std::string> all; bool first = true;
  auto meet = [&](const std::unordered_set<std::string>& s) { if (first) { all.insert(s.begin(), s.end()); first = false; } else { for (auto it = all.begin(); it != all.end();) if (!s.count(*it)) it = all.erase(it); else ++it; } };
  for (int c = Standards::C89; c <= Standards::CLatest; c++) meet(Keywords::getAll((Standards::cstd_t)c));
  for (int c = Standards::CPP03; c <= Standards::CPPLatest; c++) meet(Keywords::getAll((Standards::cppstd_t)c));
  for (auto& k : all) printf("%s\n", k.c_str());
}
'''

# known finding C33/KF_NONUNIVERSAL_KEYWORD_INLINE_RESTRICT: these two table entries are not keywords in every language/standard
KF_NONUNIVERSAL = ('inline', 'restrict')


def universal_keywords():
    """names that the REAL Keywords::getAll (lib/keywords.cpp, built and run natively here) lists for every C and C++ standard: only for these does
    TokenList::isKeyword -- hence Token::update_property_info -- guarantee the token type eKeyword that a tokTypes entry of the match compiler presumes"""
    if 'kw' in _cache:
        return _cache['kw']
    work = os.path.join(vlib.WORK, 'c33_gen')
    os.makedirs(work, exist_ok=True)
    with open(os.path.join(work, 'kw.cpp'), 'w') as fh:
        fh.write(KW_HELPER)
    r = subprocess.run(['g++', '-std=c++17', '-I' + os.path.join(vlib.REPO, 'lib'), os.path.join(work, 'kw.cpp'), os.path.join(vlib.REPO, 'lib', 'keywords.cpp'), '-o', os.path.join(work, 'kw')], capture_output=True, text=True)
    if r.returncode != 0:
        raise vlib.BuildError('keyword helper does not build against lib/keywords.cpp: ' + r.stderr[-800:])
    out = subprocess.run([os.path.join(work, 'kw')], capture_output=True, text=True).stdout.split()
    if len(out) < 10:
        raise vlib.BuildError('keyword helper printed %d names' % len(out))
    _cache['kw'] = set(out)
    return _cache['kw']


def unjustified(tab):
    """name-like tokTypes entries that presume eKeyword although the tokenizer does not guarantee it ('asm' is set by Token::update_property_info itself)"""
    uni = universal_keywords()
    return sorted(c for c in tab if (c[0].isalpha() or c[0] == '_') and 'eKeyword' in tab[c] and c not in uni and c != 'asm')


def word_literals(word):
    return [a[2:] if a.startswith('!!') else a for a in word.split('|')]


def gen():
    if 'g' in _cache:
        return _cache['g']
    work = os.path.join(vlib.WORK, 'c33_gen')
    os.makedirs(os.path.join(work, 'lib'), exist_ok=True)
    os.makedirs(os.path.join(work, 'syn_in'), exist_ok=True)
    os.makedirs(os.path.join(work, 'syn_out'), exist_ok=True)
    mc = os.path.join(vlib.REPO, 'tools', 'matchcompiler.py')
    r = subprocess.run([sys.executable, mc, '--read-dir', os.path.join(vlib.REPO, 'lib'), '--write-dir', os.path.join(work, 'lib')], capture_output=True, text=True)
    if r.returncode != 0:
        raise vlib.BuildError('matchcompiler.py failed on /repo/lib: ' + r.stderr[-1000:])
    pats = set()
    for f in glob.glob(os.path.join(work, 'lib', '*.cpp')):
        for m in re.finditer(r'^// pattern: ([^\n]*)\n(?:MAYBE_UNUSED )?static inline bool match\d+\(', open(f, encoding='utf-8', errors='replace').read(), re.M):
            pats.add(m.group(1))
    # which interpreter does a pattern belong to?  Token::Match / findmatch read the pattern language, Token::simpleMatch / findsimplematch compare words literally
    kind = {}
    for f in glob.glob(os.path.join(vlib.REPO, 'lib', '*.cpp')):
        src = open(f, encoding='utf-8', errors='replace').read()
        for m in re.finditer(r'Token::(Match|simpleMatch|findmatch|findsimplematch)\s*\((?:[^;"]|\n)*?"((?:[^"\\\\]|\\\\.)*)"', src):
            kind.setdefault(m.group(2), set()).add('simple' if 'imple' in m.group(1) else 'match')
    wk = set()
    for p_ in pats:
        ks = kind.get(p_, {'match'})
        for w in p_.split(' '):
            if w:
                for k_ in ks:
                    wk.add((w, k_))
    words = sorted(wk)
    # single-word patterns through the real match compiler
    syn = ['#include "token.h"']
    usable = []
    for k, (w, knd) in enumerate(words):
        if '"' in w or '\\' in w or max((len(x) for x in re.split(r'\|', w)), default=0) > 14:
            continue
        usable.append((w, knd))
    for k, (w, knd) in enumerate(usable):
        arg = ', varid' if ('%varid%' in w and knd == 'match') else ''
        syn.append('bool synw_%d(const Token* tok, int varid) { return Token::%s(tok, "%s"%s); }' % (k, 'Match' if knd == 'match' else 'simpleMatch', w, arg))
    with open(os.path.join(work, 'syn_in', 'syn.cpp'), 'w') as fh:
        fh.write('\n'.join(syn) + '\n')
    r = subprocess.run([sys.executable, mc, '--read-dir', os.path.join(work, 'syn_in'), '--write-dir', os.path.join(work, 'syn_out')], capture_output=True, text=True)
    if r.returncode != 0:
        raise vlib.BuildError('matchcompiler.py failed on the synthetic word file: ' + r.stderr[-1000:])
    out = open(os.path.join(work, 'syn_out', 'syn.cpp')).read()
    fn = {}
    for m in re.finditer(r'^// pattern: ([^\n]*)\n(?:MAYBE_UNUSED )?static inline bool (match\d+)\((const Token\* tok(?:, const int varid)?)\) \{\n(.*?)^\}', out, re.M | re.S):
        fn[m.group(2)] = (m.group(1), m.group(3), m.group(4))
    call = {}
    for m in re.finditer(r'bool synw_(\d+)\(const Token\* tok, int varid\) \{ return (match\d+)\(tok(, varid)?\); \}', out):
        call[int(m.group(1))] = m.group(2)
    items = []
    for k, (w, knd) in enumerate(usable):
        if k not in call:      # the compiler left the call alone (pattern it does not handle): nothing to compare
            continue
        pat, sig, body = fn[call[k]]
        items.append({'k': k, 'word': w, 'kind': knd, 'sig': sig, 'body': body, 'varid': 'varid' in sig})
    g = {'patterns': len(pats), 'words': len(words), 'items': items, 'skipped': len(words) - len(items)}
    _cache['g'] = g
    return g


def candidates(word, tab):
    """texts the fabricated token ranges over: the word's own literals, their one-character extensions/truncations and foreign texts of every token class"""
    lits = []
    for alt in word.split('|') if not (word.startswith('[') and word.endswith(']') and len(word) > 2) else list(word[1:-1]):
        if alt.startswith('!!'):
            alt = alt[2:]
        if alt and not (alt.startswith('%') and alt.endswith('%') and len(alt) > 2):
            lits.append(alt)
    if word == '|' or word == '||':
        lits = [word]
    c = []
    for l in lits:
        c += [l, l + 'x', l[:-1] if len(l) > 1 else l + l]
    c += ['x', 'ab', '0', '12', '"s"', "'c'", '+', '|', '||', '==', '=', '<', '(', '[', '&&', 'true', 'void', '...', '::', ';']
    seen = []
    for x in c:
        if x not in seen and 0 < len(x) <= 15:
            seen.append(x)
    return seen[:24]


def wrapper_for(b):
    def w():
        g = gen()
        tab = tok_types_table()
        items = g['items'][b * BATCH:(b + 1) * BATCH]
        parts = ['// GENERATED by props/C33.py: match-compiler output (verbatim bodies) next to the interpreter, batch %d' % b,
                 '#include "vwrap.h"', '#include "token.h"', '#include "matchcompiler.h"', '#include "errortypes.h"', '#include <cstring>',
                 'extern "C" __attribute__((noinline)) void tok_setup(Token* t, Token::Impl* impl, unsigned tokType, unsigned varId)',
                 '{ t->mNext = nullptr; t->mPrevious = nullptr; t->mLink = nullptr; t->mImpl = impl; t->mFlags = 0; t->tokType(static_cast<Token::Type>(tokType)); impl->mVarId = varId; }',
                 'extern "C" __attribute__((noinline)) void* tok_strfield(Token* t) { return &t->mStr; }',
                 'extern "C" __attribute__((noinline)) unsigned tok_type(const Token* t) { return (unsigned)t->tokType(); }']
        for it in items:
            parts.append('// word: %s' % it['word'])
            parts.append('static inline bool mcbody_%d(%s) {\n%s}' % (it['k'], it['sig'], it['body']))
            parts.append('KFN(bool, mc_%d, (const Token* tok, int varid), return mcbody_%d(tok%s);)' % (it['k'], it['k'], ', varid' if it['varid'] else ''))
            parts.append('KFN(bool, in_%d, (const Token* tok, int varid), return Token::%s(tok, "%s"%s);)' % (it['k'], 'Match' if it['kind'] == 'match' else 'simpleMatch', it['word'], ', varid' if it['varid'] else ''))
        # per-batch header for the harness
        hdr = ['/* generated */', '#define NTOKTYPES %d' % len(TOKTYPES)]
        hdr.append('enum { %s };' % ', '.join('TT_%s = %d' % (n, i) for i, n in enumerate(TOKTYPES)))
        for it in items:
            cs = candidates(it['word'], tab) if it['kind'] == 'match' else ([it['word'], it['word'] + 'x', it['word'][:-1] or 'y'] + candidates('zzz', tab)[3:])[:24]
            hdr.append('#if WORD == %d' % it['k'])
            w_ = it['word']
            empty_alt = it['kind'] == 'match' and w_ not in ('|', '||') and (w_.endswith('|') or w_.startswith('|') or '||' in w_)
            hdr.append('#define MC(t, v) mc_%d(t, v)\n#define IN(t, v) in_%d(t, v)\n#define NCAND %d\n#define USES_VARID %d\n#define HAS_EMPTY_ALT %d' % (
                it['k'], it['k'], len(cs), 1 if it['varid'] else 0, 1 if empty_alt else 0))
            hdr.append('static const char* const CAND[NCAND] = {%s};' % ', '.join('"%s"' % c.replace('\\', '\\\\').replace('"', '\\"') for c in cs))
            # representation invariant taken from the match compiler's own table: literal text => token type
            # ... but an entry that presumes eKeyword is only assumed when the real keyword sets (universal_keywords) back it
            inv = []; inv_kf = []
            unj = unjustified(tab)
            for j, c in enumerate(cs):
                if c in tab:
                    a = 'if (j == %d) __CPROVER_assume(%s);' % (j, ' || '.join('tt == TT_%s' % t for t in tab[c]))
                    if c not in unj:
                        inv.append(a)
                    elif c in KF_NONUNIVERSAL:
                        inv_kf.append(a)
            hdr.append('#ifdef KF_NONUNIVERSAL_KEYWORD_INLINE_RESTRICT\n#define INVARIANT_KF(j, tt) do { %s } while (0)\n#else\n#define INVARIANT_KF(j, tt) do { } while (0)\n#endif' % ' '.join(inv_kf))
            hdr.append('#define INVARIANT(j, tt) do { %s INVARIANT_KF(j, tt); } while (0)' % ' '.join(inv))
            hdr.append('#endif')
        os.makedirs(os.path.join(vlib.WORK, 'c33_%d' % b), exist_ok=True)
        with open(os.path.join(vlib.WORK, 'c33_%d' % b, 'words.h'), 'w') as fh:
            fh.write('\n'.join(hdr) + '\n')
        return '\n'.join(parts) + '\n'
    return w


def units():
    g = gen()
    nb = (len(g['items']) + BATCH - 1) // BATCH
    u = {}
    for b in range(nb):
        items = g['items'][b * BATCH:(b + 1) * BATCH]
        roots = ['tok_setup', 'tok_strfield', 'tok_type'] + ['mc_%d' % it['k'] for it in items] + ['in_%d' % it['k'] for it in items]
        u['c33_%d' % b] = Unit('c33_%d' % b, wrapper_text=wrapper_for(b), libs=['lib/token.cpp', 'lib/errortypes.cpp'], roots=roots,
                                types=['%class.Token=ll_Token', '%"struct.Token::Impl"=ll_TokenImpl'])
    return u


META = {
    'assumptions': ['ONE fabricated token per word; its text ranges over the word\'s literals, their one-character extension and truncation, and ~20 foreign texts of every token class',
                    'token type symbolic (all 23 values) subject to the representation invariant the match compiler itself relies on (tools/matchcompiler.py tokTypes: literal text => token type); an entry that presumes eKeyword is assumed only if the real Keywords::getAll of lib/keywords.cpp (built and run natively at check time) lists the name for every C and C++ standard -- entries for operators, brackets and true/false are trusted as they stand; varId symbolic in 0..2 with the invariant of Token::update_property_info (varId != 0 => token type eVariable)',
                    'words containing quotes/backslashes or literals longer than 14 characters are skipped (counted in the evidence)',
                    'native translation validation is run for every 8th word (the generated C of one batch is shared by its 48 words)'],
    'outside': 'the sequencing of words inside a multi-word pattern (tok = tok->next() chaining, optional and negated words across tokens) and findmatch/simpleMatch call forms are outside the per-word claim; that both sides implement the documented pattern language is not examined',
}


def obligations(tier):
    g = gen()
    o = []
    cpath = os.path.join(os.path.dirname(os.path.dirname(os.path.abspath(__file__))), 'bounds', 'C33_common.json')
    common = json.load(open(cpath)) if os.path.exists(cpath) else {}   # warm start shared by all words (loops of Token::Match and of the harness)
    seed = int(os.environ.get('VERIF_SEED', '1') or 1)
    unj = set(unjustified(tok_types_table()))
    for idx, it in enumerate(g['items']):
        b = idx // BATCH
        w = it['word']
        forced = it['kind'] == 'match' and bool(unj & set(word_literals(w))) and len(word_literals(w)) <= 8
        if tier == 'quick' and not forced:   # words (of <= 8 alternatives) with a keyword entry the tokenizer does not back are always checked
            # quick: a seed-rotated third of the %cmd% words and a twenty-fourth of the literal words (about 140 obligations); thorough: all words
            hv = int(hashlib.sha1(w.encode()).hexdigest(), 16) + seed
            if ('%' in w and hv % 3 != 0) or ('%' not in w and hv % 24 != 0):
                continue
        o.append(Obl('word.%s' % hashlib.sha1((it['kind'] + ' ' + w).encode()).hexdigest()[:8], 'c33_%d' % b, 'props/C33/harness_word.c', "match-compiled test of the pattern word '%s' == Token::%s(tok, word) on every fabricated token (and on a null token)" % (w, 'Match' if it['kind'] == 'match' else 'simpleMatch'),
                     'one token; text from the word\'s literals +/- one character and 20 foreign texts; all token types; varId 0..2', defines={'WORD': it['k']},
                     backend='sat', timeout=(240 if tier == 'quick' and not forced else 900), mem_gb=5, unwind_max=48, max_rounds=24, tv_vectors=24, tv=(int(hashlib.sha1(w.encode()).hexdigest(), 16) % 8 == 0), hints=dict({'harness.1': 26, 'harness.0': 26, 'sstr_set.0': 17}, **({'ll_strchr.0': 32, '_ZN5Token5MatchEPKS_PKci.7': 8, '_ZN5Token5MatchEPKS_PKci.8': 8} if forced else {}))))
    return o


MANIFEST = {
    'text': 'Bounded model checking, for every distinct pattern word that occurs in the Token::Match patterns of lib/*.cpp (collected at run time by running tools/matchcompiler.py as the build does), of the generated single-word matcher against the interpreter Token::Match (real lib/token.cpp) on one fabricated token whose text, token type and varId are symbolic within the stated set. Keyword entries of the match compiler type table are assumed only when the real keyword sets of lib/keywords.cpp back them. Per-word lemma; word sequencing is outside.',
    'note': 'Trusted: clang-14, ll2c.py (validated natively each run), the literal=>token-type invariant table of the match compiler, CBMC 6.11 + MiniSat. Quick tier: a rotating third of the %cmd% words + a rotating 1/24 of the literal words + every word (<= 8 alternatives) with a keyword entry the tokenizer does not back; thorough: all words.',
    'engine': 'E1 ir2c + CBMC (generated wrapper)',
}
