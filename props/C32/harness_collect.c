/* C32/L1: ImportProject::collectArgs(command) == POSIX sh field splitting (2.2 Quoting: backslash, '...', "...") without expansions,
   modulo empty arguments (cppcheck drops ""), for every command over the alphabet {a b - = ( space " ' \} up to L bytes */
#define LL_ARENA_PTR_CELLS 96
#define LL_ARENA_T uint8_t
#include "harness.h"
#ifndef L
#define L 3
#endif
void harness(void) {
  struct sstr cmd; sstr_sym(&cmd, 0, L);
  for (unsigned i = 0; i < L; i++) { uint8_t c = cmd.u.buf[i]; if (i < cmd.n) __CPROVER_assume(c == 'a' || c == 'b' || c == '-' || c == '=' || c == '(' || c == ' ' || c == '"' || c == '\'' || c == '\\'); }
  uint8_t out[32]; uint32_t n = 0, lens[4] = {0, 0, 0, 0}; memset(out, 0, 32);
  /* reference: POSIX shell quoting */
  uint8_t ref[4][8]; uint32_t rl[4] = {0, 0, 0, 0}, rn = 0; int inarg = 0, err = 0, sq = 0, dq = 0; memset(ref, 0, 32);
  for (unsigned i = 0; i < L; i++) {
    if (i >= cmd.n) break;
    uint8_t c = cmd.u.buf[i]; int lit = 0; uint8_t ch = c;
    if (sq) { if (c == '\'') sq = 0; else lit = 1; }
    else if (dq) {
      if (c == '"') dq = 0;
      else if (c == '\\' && i + 1 < cmd.n && (cmd.u.buf[i + 1] == '"' || cmd.u.buf[i + 1] == '\\')) { ch = cmd.u.buf[i + 1]; i++; lit = 1; }
      else lit = 1;
    } else {
      if (c == ' ') { if (inarg) { rn++; inarg = 0; } }
      else if (c == '\'') { sq = 1; inarg = 1; }
      else if (c == '"') { dq = 1; inarg = 1; }
      else if (c == '\\') { if (i + 1 < cmd.n) { ch = cmd.u.buf[i + 1]; i++; } lit = 1; }
      else lit = 1;
    }
    if (lit) { inarg = 1; if (rn < 4 && rl[rn] < 8) ref[rn][rl[rn]] = ch; if (rn < 4) rl[rn]++; }
  }
  if (sq || dq) err = 1;
  if (inarg) rn++;
  /* drop empty arguments of the reference ('' or "") -- cppcheck does not keep them */
  uint8_t r2[4][8]; uint32_t r2l[4] = {0, 0, 0, 0}, r2n = 0; memset(r2, 0, 32);
  for (unsigned a = 0; a < 4; a++) if (a < rn && rl[a] > 0) { for (unsigned k = 0; k < 8; k++) r2[r2n][k] = ref[a][k]; r2l[r2n] = rl[a]; r2n++; }
#ifdef KF_BACKSLASH_ORDINARY
  /* known finding: an unquoted backslash before an ordinary character is kept (POSIX removes it) */
  for (unsigned i = 0; i + 1 < L; i++) if (i + 1 < cmd.n && cmd.u.buf[i] == '\\') { uint8_t d = cmd.u.buf[i + 1]; __CPROVER_assume(d == '\\' || d == '"' || d == '\'' || d == ' '); }
#endif
#ifdef KF_DQUOTE_BACKSLASH
  /* known finding: inside double quotes \' and \<space> lose their backslash (POSIX keeps it) */
  for (unsigned i = 0; i + 1 < L; i++) if (i + 1 < cmd.n && cmd.u.buf[i] == '\\') { uint8_t d = cmd.u.buf[i + 1]; __CPROVER_assume(d != '\'' && d != ' '); }
#endif
  uint8_t e = k_collect((uint8_t*)&cmd, out, (uint8_t*)&n, (uint8_t*)lens);
  H_OUT("e", e); H_OUT("n", n);
  H_ASSERT(!__exc_pending, "no exception");
  H_ASSERT((e != 0) == (err != 0), "error <=> unterminated quote");
  if (!e && !err) {
    int same = (n == r2n);
    for (unsigned a = 0; a < 4; a++) if (a < n && a < r2n) { if (lens[a] != r2l[a]) same = 0; for (unsigned k = 0; k < 8; k++) if (k < lens[a] && out[8 * a + k] != r2[a][k]) same = 0; }
    H_ASSERT(same, "arguments == POSIX field splitting of the command (ignoring empty arguments)");
  }
  H_WITNESS(!(n == 2), "a two-argument command is reachable");
  H_WITNESS(0, "end of harness reachable");
}
