import os, sys
from vlib import Unit, Obl
UNITS = {
    'c23_supp': Unit('c23_supp', wrapper='props/C23/wrap_supp.cpp', libs=['lib/suppressions.cpp'], roots=['k_issupp']),
    'c23_glob': Unit('c23_glob', wrapper='props/C23/wrap_glob.cpp', libs=['lib/utils.cpp'], roots=['k_glob', 'k_validglob']),
}
META = {'assumptions': [], 'outside': ''}
def obligations(tier):
    L = 2 if tier == 'quick' else 3
    o = []
    o.append(Obl('glob.valid.L%d' % L, 'c23_glob', 'props/C23/harness_glob.c',
                 'matchglob == glob reference for every pattern accepted by isValidGlobPattern', '|pattern|,|name| <= %d, all byte values' % L,
                 defines={'L': L, 'VALID_ONLY': None}, backend='slice', timeout=900, unwind_max=12, hints={'ref.0': L + 4, 'ref.1': L + 4, 'sstr_sym.0': L + 1}))
    o.append(Obl('glob.any.L%d' % L, 'c23_glob', 'props/C23/harness_glob.c',
                 'matchglob == glob reference for every pattern (symbol-name globs are not validated)', '|pattern|,|name| <= %d, all byte values' % L,
                 defines={'L': L}, backend='slice', timeout=900, unwind_max=12, hints={'ref.0': L + 4, 'ref.1': L + 4, 'sstr_sym.0': L + 1}))
    SLn = 3 if tier == 'quick' else 4
    for t, tn in enumerate(['unique', 'file', 'block', 'blockBegin', 'blockEnd']):
        if tier == 'quick' and tn not in ('unique', 'block'):
            continue
        o.append(Obl('issuppressed.%s.L%d' % (tn, SLn), 'c23_supp', 'props/C23/harness_supp.c', 'Suppression::isSuppressed == documented decision table (line rule, file glob, hash, id glob, block range, symbol list), suppression type ' + tn,
                     'all line numbers/hashes/ranges/flags; symbol list <= %d bytes over {a,b,\\n}; matchers abstracted' % SLn, defines={'SL': SLn, 'CT': t}, backend='sat', timeout=1500, unwind_max=16, mem_gb=14,
                     hints={'sstr_sym.0': SLn + 1, 'harness.0': SLn + 1, 'harness.1': 3, 'harness.4': SLn + 3, 'harness.3': 3}))
    return o
MANIFEST = {
    'text': 'Bounded model checking of the real matchglob (lib/utils.cpp), compiled from the working tree to LLVM IR and executed symbolically: for every pattern and name up to the stated length (all byte values) the result equals the documented glob semantics; all unwinding assertions pass, witnesses confirm non-vacuity. Kernel-level claim: suppression matching beyond these functions is outside.',
    'note': 'Trusted: clang-14 IR generation, engine/ll2c.py (validated every run against a g++ build on 200+ vectors), stubs.h (operator new arena, tolower), CBMC 6.11 + MiniSat. Bound: string lengths <= 2 (quick) / 3 (thorough).',
}
