#!/usr/bin/env python3
"""tools/claim.py Cxx [...]: remove ids from props/not_applicable.json (they become claimed) and regenerate MANIFEST.json"""
import json, os, subprocess, sys
HERE = os.path.dirname(os.path.dirname(os.path.abspath(__file__)))
p = os.path.join(HERE, 'props', 'not_applicable.json')
na = json.load(open(p))
for i in sys.argv[1:]:
    na.pop(i, None)
json.dump(na, open(p, 'w'), indent=1)
subprocess.check_call([sys.executable, os.path.join(HERE, 'tools', 'gen_manifest.py')])
