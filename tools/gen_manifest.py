#!/usr/bin/env python3
"""Regenerates /verif/MANIFEST.json from the property modules (props/Cxx.py: MANIFEST dict) and props/not_applicable.json."""
import importlib.util, json, os, sys
HERE = os.path.dirname(os.path.dirname(os.path.abspath(__file__)))
sys.path.insert(0, os.path.join(HERE, 'engine'))
ids = [json.loads(l)['id'] for l in open(os.path.join(HERE, 'properties.jsonl'))]
na = json.load(open(os.path.join(HERE, 'props', 'not_applicable.json')))
checks, napp = [], []
for pid in ids:
    p = os.path.join(HERE, 'props', pid + '.py')
    if os.path.exists(p) and pid not in na:
        spec = importlib.util.spec_from_file_location('prop_' + pid, p)
        mod = importlib.util.module_from_spec(spec); spec.loader.exec_module(mod)
        M = mod.MANIFEST
        checks.append({
            'property_id': pid,
            'quick_cmd': 'VERIF_TIER=quick ./check %s' % pid,
            'thorough_cmd': 'VERIF_TIER=thorough ./check %s' % pid,
            'evidence_file': 'evidence/%s.json' % pid,
            'replay_cmd_template': './check %s --replay {path}' % pid,
            'engine': M.get('engine', 'E1 ir2c + CBMC'),
            'level_claimed': {'category': 'model_checking', 'text': M['text'], 'design_ref': M.get('design_ref', 'DESIGN.md section 4, ' + pid)},
            'level_note': M['note'],
            'technique': M.get('technique', 'bounded symbolic execution of the real functions (clang LLVM IR -> C -> CBMC 6.11, SAT/SMT verdict), counterexamples replayed natively'),
        })
    else:
        napp.append({'property_id': pid, 'reason': na.get(pid, 'solver-based check not built; see DESIGN.md')})
man = {
    'version': 1,
    'setup_cmd': './setup.sh',
    'hooks': {'guard': 'DANMAR_CPPCHECK_VERIF', 'enable': 'no hooks: checks compile the real sources to LLVM IR with clang++-14 -fno-access-control; nothing in /repo is instrumented',
              'baseline_off_cmd': 'cmake --build /repo/_build -j16 && ctest --test-dir /repo/_build -j8 --timeout 900', 'source_commits': [], 'add_only': True},
    'engines': [
        {'name': 'E1 ir2c + CBMC', 'path': 'engine/', 'serves_properties': [c['property_id'] for c in checks if 'CrossHair' not in c['engine']],
         'kind_free_text': 'real C++ functions -> clang-14 LLVM IR -> engine/ll2c.py -> C -> cbmc 6.11 (MiniSat/Z3) with per-loop unwinding discovery and unwinding assertions; E2 = verbatim source slices compiled against mock environments then E1'},
        {'name': 'E3 CrossHair', 'path': 'props/C36.py', 'serves_properties': [c['property_id'] for c in checks if 'CrossHair' in c['engine']],
         'kind_free_text': 'Z3-backed symbolic execution of the real Python functions of htmlreport/cppcheck-htmlreport'}],
    'checks': checks,
    'not_applicable': napp,
    'notes': 'All claims are kernel-level and bounded: see DESIGN.md 1.2. INCONCLUSIVE obligations (timeouts) are counted in the evidence and never reported as success or as alarms.',
}
json.dump(man, open(os.path.join(HERE, 'MANIFEST.json'), 'w'), indent=1)
print('MANIFEST.json: %d checks, %d not applicable' % (len(checks), len(napp)))
