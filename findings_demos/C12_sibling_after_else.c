void f(void) {
    char a[10];
#ifdef A
#ifdef B
    a[0] = 0;
#else
    a[1] = 0;
#endif
#ifdef C
    a[12] = 0;
#endif
#endif
}
