void f(void) {
    char a[10];
#ifndef X
    a[2] = 0;
#else
    a[0] = 0;
#endif
#ifdef A
#ifdef X
    a[1] = 0;
#endif
#ifdef C
    a[12] = 0;
#endif
#endif
}
