/* harness.h -- common prelude of every E1/E2 harness.
   Three build modes of the SAME harness source:
     (default)       CBMC: OUTC (C generated from the real code's LLVM IR) is included; inputs are nondet
     -DNATIVE_TRANS  gcc: OUTC included; inputs read from a vector   (translation validation, side A)
     -DNATIVE_REAL   gcc + g++-built REAL functions; inputs from a vector (side B / counterexample replay)
   Inputs are drawn ONLY through in_*() so that a solver assignment can be replayed verbatim. */
#ifndef HARNESS_H
#define HARNESS_H
#include <stdint.h>
#include <stddef.h>
#include <string.h>
#ifdef NATIVE_REAL
#include <stdlib.h>
#include ROOTS_H
int __exc_pending;
void ll_native_assume_fail(const char* what);
#define LL_ASSUME(c) do { if (!(c)) ll_native_assume_fail(#c); } while (0)
#define __CPROVER_assume(c) LL_ASSUME(c)
#else
#include OUTC
#endif

#ifdef __CPROVER__
uint64_t nondet_u64(void); uint32_t nondet_u32(void); uint8_t nondet_u8(void);
/* every input passes through in_rec(): its return values, in order, are read back from the counterexample trace */
static uint64_t in_rec(uint64_t v) { return v; }
static uint64_t in_u64(void) { return in_rec(nondet_u64()); }
static uint32_t in_u32(void) { return (uint32_t)in_rec(nondet_u32()); }
static uint8_t in_u8(void) { return (uint8_t)in_rec(nondet_u8()); }
static uint32_t in_range(uint32_t lo, uint32_t hi) { uint32_t v = nondet_u32(); __CPROVER_assume(v >= lo && v <= hi); return (uint32_t)in_rec(v); }
#ifdef C13MODE
#define H_ASSERT(c, msg) ((void)(c))   /* C13 twin: only CBMC's standard checks and the unwinding assertions decide */
#else
#define H_ASSERT(c, msg) __CPROVER_assert((c), "LEMMA: " msg)
#endif
#define H_WITNESS(c, msg) __CPROVER_assert((c), "WITNESS: " msg)
#define H_SAFETY(c, msg) __CPROVER_assert((c), "SAFETY: " msg)
#define H_OUT(name, v) ((void)0)
#else
#include <stdio.h>
#include <setjmp.h>
static uint64_t ll_vec[4096]; static unsigned ll_nvec, ll_ivec; static jmp_buf ll_jb; static int ll_failed;
void ll_native_assume_fail(const char* what) { (void)what; longjmp(ll_jb, 1); }
static uint64_t in_u64(void) { return ll_ivec < ll_nvec ? ll_vec[ll_ivec++] : (ll_ivec++, 0); }
static uint32_t in_u32(void) { return (uint32_t)in_u64(); }
static uint8_t in_u8(void) { return (uint8_t)in_u64(); }
/* native: map into the range instead of rejecting (a replayed solver value is already in range) */
static uint32_t in_range(uint32_t lo, uint32_t hi) { uint64_t v = in_u64(); if (v >= lo && v <= hi) return (uint32_t)v; return lo + (uint32_t)(v % ((uint64_t)hi - lo + 1)); }
#define H_ASSERT(c, msg) do { int ok_ = !!(c); printf("A %s: %s\n", msg, ok_ ? "ok" : "FAIL"); if (!ok_) ll_failed = 1; } while (0)
#define H_WITNESS(c, msg) do { (void)(c); } while (0)
#define H_SAFETY(c, msg) do { int ok_ = !!(c); printf("S %s: %s\n", msg, ok_ ? "ok" : "FAIL"); if (!ok_) ll_failed = 1; } while (0)
#define H_OUT(name, v) printf("O %s=%lld\n", name, (long long)(v))
#endif

/* libstdc++ std::string (SSO layout, _GLIBCXX_USE_CXX11_ABI=1) fabricated directly; length <= 15 */
struct sstr { uint8_t* p; uint64_t n; union { uint64_t cap; uint8_t buf[16]; } u; };
static void sstr_set(struct sstr* s, const char* lit) { unsigned l = 0; s->p = s->u.buf; while (lit[l]) { s->u.buf[l] = (uint8_t)lit[l]; l++; } s->u.buf[l] = 0; s->n = l; }
/* symbolic string: length in [minlen,maxlen], every byte symbolic and non-NUL; all draws unconditional */
static void sstr_sym(struct sstr* s, unsigned minlen, unsigned maxlen) {
  unsigned len = in_range(minlen, maxlen);
  s->p = s->u.buf; s->n = len;
  for (unsigned i = 0; i < maxlen; i++) { uint8_t c = in_u8(); if (c == 0) c = 1; s->u.buf[i] = c; }
  s->u.buf[len] = 0;
}
/* same, but NUL bytes allowed inside (std::string can hold them) */
static void sstr_sym0(struct sstr* s, unsigned minlen, unsigned maxlen) {
  unsigned len = in_range(minlen, maxlen);
  s->p = s->u.buf; s->n = len;
  for (unsigned i = 0; i < maxlen; i++) s->u.buf[i] = in_u8();
  s->u.buf[len] = 0;
}
static int sstr_eq(const struct sstr* s, const char* lit) { unsigned i = 0; for (; lit[i]; i++) if (i >= s->n || s->p[i] != (uint8_t)lit[i]) return 0; return s->n == i; }

void harness(void);

#ifndef __CPROVER__
static void ll_reset(void) {
  __exc_pending = 0;
#if defined(LL_HAVE_ARENA)
  ll_arena_used = 0; ll_arena_exhausted = 0;
#endif
#ifdef H_RESET
  H_RESET();
#endif
}
int main(int argc, char** argv) {
  /* stdin: one input vector per line (decimal u64s separated by blanks) */
  char line[65536]; unsigned vi = 0; int anyfail = 0;
  while (fgets(line, sizeof line, stdin)) {
    ll_nvec = 0; ll_ivec = 0; ll_failed = 0;
    char* q = line;
    for (;;) { while (*q == ' ') q++; if (*q < '0' || *q > '9') break; ll_vec[ll_nvec++] = strtoull(q, &q, 10); if (ll_nvec >= 4096) break; }
    printf("== vec %u\n", vi++);
    ll_reset();
    if (setjmp(ll_jb) == 0) { harness(); printf("R %s\n", ll_failed ? "FAIL" : "pass"); if (ll_failed) anyfail = 1; }
    else printf("R rejected\n");
  }
  return anyfail ? 1 : 0;
}
#endif
#endif
