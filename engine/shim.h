#include <bits/c++config.h>
#undef _GLIBCXX_EXTERN_TEMPLATE
#define _GLIBCXX_EXTERN_TEMPLATE 0
