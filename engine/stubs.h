/* stubs.h -- C models of the libstdc++/libc externals the translated IR calls.  #included by the generated C.
   Every function here is part of the claim of every check that uses the E1 engine (listed in the evidence). */
int __exc_pending; uint8_t* __exc_obj; uint8_t* __exc_type;
#ifdef __CPROVER__
#define LL_ASSUME(c) __CPROVER_assume(c)
#define LL_UNREACHABLE() do { __CPROVER_assert(0, "UB: llvm 'unreachable' reached"); __CPROVER_assume(0); } while (0)
#define LL_TRAP() do { __CPROVER_assert(0, "UB: trap/abort reached"); __CPROVER_assume(0); } while (0)
#else
void ll_native_assume_fail(const char* what);
#define LL_ASSUME(c) do { if (!(c)) ll_native_assume_fail(#c); } while (0)
#define LL_UNREACHABLE() ll_native_assume_fail("unreachable")
#define LL_TRAP() ll_native_assume_fail("trap")
#define __CPROVER_assume(c) LL_ASSUME(c)
#endif
#if defined(LL_ARENA_PTR_CELLS) && defined(__CPROVER__)
/* typed bump arena (a CBMC modelling device; the native builds use malloc): cells are pointers so that pointer stores/loads need no byte-level re-interpretation */
#ifndef LL_ARENA_T
#define LL_ARENA_T uint8_t*
#endif
#define LL_PER_CELL (8 / sizeof(LL_ARENA_T))
static LL_ARENA_T ll_arena[LL_ARENA_PTR_CELLS * LL_PER_CELL]; static uint64_t ll_arena_used; int ll_arena_exhausted;
uint8_t* _Znwm(uint64_t n) { uint64_t cells = (n + 7) / 8; uint64_t at = ll_arena_used;
  if (at + cells > LL_ARENA_PTR_CELLS) { ll_arena_exhausted = 1; LL_ASSUME(0); }
  ll_arena_used = at + cells; return (uint8_t*)&ll_arena[at * LL_PER_CELL]; }
#define free(p) ((void)(p))
#define LL_HAVE_ARENA 1
#else
uint8_t* _Znwm(uint64_t n) { uint8_t* p = malloc(n); LL_ASSUME(p != 0); return p; }
#endif
uint8_t* _Znam(uint64_t n) { return _Znwm(n); }
void _ZdlPv(uint8_t* p) { free(p); }
void _ZdaPv(uint8_t* p) { free(p); }
void _ZdlPvm(uint8_t* p, uint64_t n) { free(p); }
uint8_t* __cxa_allocate_exception(uint64_t n) { return _Znwm(n < 8 ? 8 : n); }
void __cxa_free_exception(uint8_t* p) { }
void __cxa_throw(uint8_t* o, uint8_t* t, uint8_t* d) { __exc_pending = 1; __exc_obj = o; __exc_type = t; }
uint8_t* __cxa_begin_catch(uint8_t* o) { __exc_pending = 0; return o; }
void __cxa_end_catch(void) { }
void __cxa_rethrow(void) { __exc_pending = 1; }
static uint8_t ll_ti_generic[8];
#define LL_THROW(ti) do { __exc_pending = 1; __exc_obj = ll_ti_generic; __exc_type = (uint8_t*)(ti); } while (0)
#ifdef _ZTISt12length_error
#define LL_TI_LENGTH (&_ZTISt12length_error)
#else
#define LL_TI_LENGTH ll_ti_generic
#endif
#ifdef _ZTISt12out_of_range
#define LL_TI_OOR (&_ZTISt12out_of_range)
#else
#define LL_TI_OOR ll_ti_generic
#endif
#ifdef _ZTISt16invalid_argument
#define LL_TI_INVARG (&_ZTISt16invalid_argument)
#else
#define LL_TI_INVARG ll_ti_generic
#endif
void _ZSt20__throw_length_errorPKc(uint8_t* m) { LL_THROW(LL_TI_LENGTH); }
void _ZSt19__throw_logic_errorPKc(uint8_t* m) { LL_THROW(ll_ti_generic); }
void _ZSt20__throw_out_of_rangePKc(uint8_t* m) { LL_THROW(LL_TI_OOR); }
void _ZSt24__throw_out_of_range_fmtPKcz(uint8_t* m, ...) { LL_THROW(LL_TI_OOR); }
void _ZSt24__throw_invalid_argumentPKc(uint8_t* m) { LL_THROW(LL_TI_INVARG); }
void _ZSt17__throw_bad_allocv(void) { LL_THROW(ll_ti_generic); }
void _ZSt28__throw_bad_array_new_lengthv(void) { LL_THROW(ll_ti_generic); }
void _ZSt9terminatev(void) { LL_TRAP(); }
void ll_abort(void) { LL_TRAP(); }
int ll_eh_typeid(uint8_t* ti) {
#ifdef __CPROVER__
  return (int)__CPROVER_POINTER_OBJECT(ti) + 1;
#else
  return (int)((((uintptr_t)ti) >> 3) & 0x3fffffff) + 1;
#endif
}
int ll_eh_match(uint8_t* thrown, uint8_t* clause) {
  if (thrown == clause) return 1;
  if (thrown == ll_ti_generic) return 0;
#if defined(_ZTISt12out_of_range) && defined(_ZTISt11logic_error)
  if (thrown == (uint8_t*)&_ZTISt12out_of_range && clause == (uint8_t*)&_ZTISt11logic_error) return 1;
#endif
#if defined(_ZTISt9exception)
  if (clause == (uint8_t*)&_ZTISt9exception) return 1; /* every modelled exception derives from std::exception */
#endif
  return 0;
}
/* memcpy/memmove/memset with a NON-constant length (ll2c keeps the builtins for constant lengths) */
void ll_memmove_dyn(uint8_t* d, uint8_t* s, uint64_t n) {
  if ((uintptr_t)d <= (uintptr_t)s) { for (uint64_t i = 0; i < n; i++) d[i] = s[i]; }
  else { for (uint64_t i = n; i > 0; i--) d[i - 1] = s[i - 1]; } }
void ll_memset_dyn(uint8_t* d, uint32_t c, uint64_t n) { for (uint64_t i = 0; i < n; i++) d[i] = (uint8_t)c; }
/* libc */
uint64_t ll_strlen(uint8_t* s) { uint64_t n = 0; while (s[n]) n++; return n; }
uint32_t ll_tolower(uint32_t c) { return (c >= 'A' && c <= 'Z') ? c + 32 : c; }
uint32_t ll_toupper(uint32_t c) { return (c >= 'a' && c <= 'z') ? c - 32 : c; }
uint32_t ll_isxdigit(uint32_t c) { return (c >= '0' && c <= '9') || (c >= 'a' && c <= 'f') || (c >= 'A' && c <= 'F'); }
uint32_t ll_isdigit(uint32_t c) { return (c >= '0' && c <= '9'); }
uint32_t ll_isalpha(uint32_t c) { return (c >= 'a' && c <= 'z') || (c >= 'A' && c <= 'Z'); }
uint32_t ll_bcmp(uint8_t* a, uint8_t* b, uint64_t n) { for (uint64_t i = 0; i < n; i++) if (a[i] != b[i]) return 1; return 0; }
uint32_t ll_memcmp(uint8_t* a, uint8_t* b, uint64_t n) { for (uint64_t i = 0; i < n; i++) if (a[i] != b[i]) return a[i] < b[i] ? (uint32_t)-1 : 1; return 0; }
uint8_t* ll_memchr(uint8_t* a, uint32_t c, uint64_t n) { for (uint64_t i = 0; i < n; i++) if (a[i] == (uint8_t)c) return a + i; return 0; }
uint8_t* ll_strchr(uint8_t* s, uint32_t c) { for (;; s++) { if (*s == (uint8_t)c) return s; if (!*s) return 0; } }
uint32_t ll_strncmp(uint8_t* a, uint8_t* b, uint64_t n) { for (uint64_t i = 0; i < n; i++) { if (a[i] != b[i]) return a[i] < b[i] ? (uint32_t)-1 : 1; if (!a[i]) return 0; } return 0; }
uint32_t ll_strcmp(uint8_t* a, uint8_t* b) { for (uint64_t i = 0;; i++) { if (a[i] != b[i]) return a[i] < b[i] ? (uint32_t)-1 : 1; if (!a[i]) return 0; } }
/* std::list node splicing (libstdc++ src/c++98/list.cc), pointer-for-pointer */
struct ll_lnb { uint8_t* next; uint8_t* prev; };
#define LNB(p) ((struct ll_lnb*)(p))
void _ZNSt8__detail15_List_node_base7_M_hookEPS0_(uint8_t* self, uint8_t* pos) {
  LNB(self)->next = pos; LNB(self)->prev = LNB(pos)->prev; LNB(LNB(pos)->prev)->next = self; LNB(pos)->prev = self; }
void _ZNSt8__detail15_List_node_base9_M_unhookEv(uint8_t* self) {
  uint8_t* n = LNB(self)->next; uint8_t* p = LNB(self)->prev; LNB(p)->next = n; LNB(n)->prev = p; }
void _ZNSt8__detail15_List_node_base11_M_transferEPS0_S1_(uint8_t* self, uint8_t* first, uint8_t* last) {
  if (self != last) {
    LNB(LNB(last)->prev)->next = self; LNB(LNB(first)->prev)->next = last; LNB(LNB(self)->prev)->next = first;
    uint8_t* tmp = LNB(self)->prev; LNB(self)->prev = LNB(last)->prev; LNB(last)->prev = LNB(first)->prev; LNB(first)->prev = tmp; } }
#ifdef LL_EXTRA_STUBS
#include LL_EXTRA_STUBS
#endif
/* errno + strtoull/strtoll ("C" locale, bases 8/10/16/0), as specified by C11 7.22.1.4 */
#ifndef LL_NO_STRTO
static int ll_errno_cell;
uint8_t* ll___errno_location(void) { return (uint8_t*)&ll_errno_cell; }
static int ll_digitval(uint8_t c) { if (c >= '0' && c <= '9') return c - '0'; if (c >= 'a' && c <= 'z') return c - 'a' + 10; if (c >= 'A' && c <= 'Z') return c - 'A' + 10; return 99; }
uint64_t ll_strtoull(uint8_t* nptr, uint8_t* endptr, uint32_t base) {
  uint8_t* s = nptr; int neg = 0; uint64_t acc = 0; int any = 0, ovf = 0;
  while (*s == ' ' || (*s >= 9 && *s <= 13)) s++;
  if (*s == '-') { neg = 1; s++; } else if (*s == '+') s++;
  if ((base == 0 || base == 16) && s[0] == '0' && (s[1] == 'x' || s[1] == 'X') && ll_digitval(s[2]) < 16) { s += 2; base = 16; }
  if (base == 0) base = (s[0] == '0') ? 8 : 10;
  for (;; s++) { int d = ll_digitval(*s); if (d >= (int)base) break; any = 1;
    if (acc > (UINT64_MAX - (uint64_t)d) / base) ovf = 1; else acc = acc * base + (uint64_t)d; }
  if (endptr) *(uint8_t**)endptr = any ? s : nptr;
  if (ovf) { ll_errno_cell = 34 /*ERANGE*/; return UINT64_MAX; }
  return neg ? (uint64_t)0 - acc : acc;
}
#endif
uint32_t ll_isspace(uint32_t c) { return c == ' ' || (c >= 9 && c <= 13); }
uint32_t ll_isalnum(uint32_t c) { return ll_isdigit(c) || ll_isalpha(c); }
uint32_t ll_isupper(uint32_t c) { return c >= 'A' && c <= 'Z'; }
uint32_t ll_islower(uint32_t c) { return c >= 'a' && c <= 'z'; }
uint32_t ll_isprint(uint32_t c) { return c >= 0x20 && c <= 0x7e; }
void ll_exit(uint32_t code) { LL_TRAP(); }
/* function-local statics: single-threaded guard protocol (Itanium C++ ABI 3.3.3) */
uint32_t __cxa_guard_acquire(uint8_t* g) { return *g == 0; }
void __cxa_guard_release(uint8_t* g) { *g = 1; }
void __cxa_guard_abort(uint8_t* g) { }
#ifdef __CPROVER__
uint32_t __cxa_atexit(uint8_t* f, uint8_t* p, uint8_t* d) { return 0; }
#endif
#ifndef LL_NO_STRTO
uint64_t ll_strtol(uint8_t* nptr, uint8_t* endptr, uint32_t base) {
  uint8_t* s = nptr; int neg = 0; uint64_t acc = 0; int any = 0, ovf = 0;
  while (*s == ' ' || (*s >= 9 && *s <= 13)) s++;
  if (*s == '-') { neg = 1; s++; } else if (*s == '+') s++;
  if ((base == 0 || base == 16) && s[0] == '0' && (s[1] == 'x' || s[1] == 'X') && ll_digitval(s[2]) < 16) { s += 2; base = 16; }
  if (base == 0) base = (s[0] == '0') ? 8 : 10;
  for (;; s++) { int d = ll_digitval(*s); if (d >= (int)base) break; any = 1;
    if (acc > ((uint64_t)INT64_MAX + (uint64_t)neg - (uint64_t)d) / base) ovf = 1; else acc = acc * base + (uint64_t)d; }
  if (endptr) *(uint8_t**)endptr = any ? s : nptr;
  if (ovf) { ll_errno_cell = 34; return neg ? (uint64_t)INT64_MIN : (uint64_t)INT64_MAX; }
  return neg ? ((uint64_t)0 - acc) : acc;
}
#endif
