// vwrap.h -- included by every wrapper TU.  A wrapper only forwards to real cppcheck code.
// IR mode (clang -emit-llvm): plain noinline extern "C" function.
// VERIF_NATIVE (g++ build of the real functions for replay / translation validation): same body inside
// try/catch so that a C++ exception becomes the same __exc_pending flag the translated code uses.
#pragma once
#ifdef VERIF_NATIVE
extern "C" int __exc_pending;
#define KFN(ret, name, params, ...) extern "C" ret name params { try { __VA_ARGS__ } catch (...) { __exc_pending = 1; } typedef ret R_; return R_(); }
#define KVOID(name, params, ...) extern "C" void name params { try { __VA_ARGS__ } catch (...) { __exc_pending = 1; } }
#else
#define KFN(ret, name, params, ...) extern "C" __attribute__((noinline)) ret name params { __VA_ARGS__ }
#define KVOID(name, params, ...) extern "C" __attribute__((noinline)) void name params { __VA_ARGS__ }
#endif
