#!/usr/bin/env python3
"""vlib.py -- runner library for the solver-based checks (see DESIGN.md section 2).

A property module (props/Cxx.py) provides
    UNITS  : {name: Unit}            real code -> LLVM IR -> C (E1) ; wrapper may be generated from source slices (E2)
    def obligations(tier) -> [Obl]   what the solver has to decide
    META   : dict                    level text, assumptions, outside-claim text
The runner builds the units from /repo's *current* working tree, validates the translation natively, runs every
obligation through CBMC with per-loop bound discovery, replays counterexamples against the g++-built real code,
filters known findings and writes the evidence file.
"""
import concurrent.futures as cf
import hashlib, json, os, re, resource, shutil, subprocess, sys, threading, time, random

VERIF = os.path.dirname(os.path.dirname(os.path.abspath(__file__)))
REPO = os.environ.get('VERIF_REPO', '/repo')
ENGINE = os.path.join(VERIF, 'engine')
WORK = os.environ.get('VERIF_WORK', os.path.join(VERIF, '.work'))
NCPU = os.cpu_count() or 4

INCLUDES = ['lib', 'cli', 'frontend', 'externals/simplecpp', 'externals/tinyxml2', 'externals/picojson', 'externals']
CXXSTD = '-std=c++11'      # the build's own standard (CMAKE_CXX_STANDARD 11)
IRFLAGS = ['-O2', '-fno-vectorize', '-fno-slp-vectorize', '-fno-unroll-loops', '-fno-access-control', '-emit-llvm',
           '-DNDEBUG', '-w', '-include', os.path.join(ENGINE, 'shim.h')]


def sh(cmd, **kw):
    return subprocess.run(cmd, capture_output=True, text=True, **kw)


def sha1(b):
    if isinstance(b, str):
        b = b.encode()
    return hashlib.sha1(b).hexdigest()


def log(*a):
    print(*a, flush=True)


class BuildError(Exception):
    pass


class StaleAnchor(Exception):
    pass


# ----------------------------------------------------------------------------------------------------------- slices (E2)
def repo_read(rel):
    with open(os.path.join(REPO, rel), encoding='utf-8', errors='replace') as fh:
        return fh.read()


def cut(rel, start_re, end_re, include_end=True, nth=1, after_re=None):
    """Verbatim block of REPO/rel from the first line matching start_re (the nth such line, optionally only after a line
    matching after_re) to the first following line matching end_re.  Raises StaleAnchor if an anchor is missing."""
    lines = repo_read(rel).split('\n')
    i0 = 0
    if after_re is not None:
        for i, l in enumerate(lines):
            if re.search(after_re, l):
                i0 = i
                break
        else:
            raise StaleAnchor('%s: anchor /%s/ not found' % (rel, after_re))
    cnt = 0
    s = None
    for i in range(i0, len(lines)):
        if re.search(start_re, lines[i]):
            cnt += 1
            if cnt == nth:
                s = i
                break
    if s is None:
        raise StaleAnchor('%s: start anchor /%s/ not found' % (rel, start_re))
    for j in range(s + 1, len(lines)):
        if re.search(end_re, lines[j]):
            e = j
            break
    else:
        raise StaleAnchor('%s: end anchor /%s/ not found after line %d' % (rel, end_re, s + 1))
    blk = lines[s:(e + 1 if include_end else e)]
    return '\n'.join(blk), (s + 1, e + 1 if include_end else e)


# ----------------------------------------------------------------------------------------------------------- units
class Unit:
    def __init__(self, name, wrapper=None, wrapper_text=None, libs=(), roots=(), cflags=(), types=(), opt=None, std=None, cuts=(), shim=True):
        self.shim = shim               # False: keep libstdc++'s extern templates (iostream stays external); the wrapper instantiates std::string itself
        self.cuts = list(cuts)         # mangled names of functions declared unreachable (asserted): body not encoded
        self.name = name
        self.wrapper = wrapper            # path relative to VERIF, or None when wrapper_text (callable or str) is given
        self.wrapper_text = wrapper_text
        self.libs = list(libs)            # repo-relative .cpp files compiled and linked in
        self.roots = list(roots)
        self.cflags = list(cflags)
        self.types = list(types)          # 'llvm type name=c alias'
        self.opt = opt
        self.std = std or CXXSTD
        self.dir = os.path.join(WORK, name)
        self.outc = os.path.join(self.dir, 'all.c')
        self.info = {}
        self._native = None
        self._lock = threading.Lock()

    def incs(self):
        return ['-I' + os.path.join(REPO, d) for d in INCLUDES] + ['-I' + ENGINE]

    def wrapper_path(self):
        if self.wrapper_text is not None:
            txt = self.wrapper_text() if callable(self.wrapper_text) else self.wrapper_text
            p = os.path.join(self.dir, 'wrap_gen.cpp')
            with open(p, 'w') as fh:
                fh.write(txt)
            return p
        return os.path.join(VERIF, self.wrapper)

    def build(self):
        t0 = time.time()
        shutil.rmtree(self.dir, ignore_errors=True)
        os.makedirs(self.dir)
        wp = self.wrapper_path()
        irflags = list(IRFLAGS)
        if not self.shim:
            irflags = irflags[:irflags.index('-include')]
        flags = [self.std] + [f for f in irflags if not (self.opt and f == '-O2')] + ([self.opt] if self.opt else []) + self.incs() + self.cflags
        jobs = [(wp, os.path.join(self.dir, 'wrap.bc'))]
        for l in self.libs:
            jobs.append((os.path.join(REPO, l), os.path.join(self.dir, 'lib_' + re.sub(r'\W', '_', l) + '.bc')))
        procs = [(src, subprocess.Popen(['clang++-14'] + flags + ['-c', src, '-o', out], stdout=subprocess.PIPE,
                                        stderr=subprocess.STDOUT, text=True)) for src, out in jobs]
        for src, p in procs:
            out, _ = p.communicate()
            if p.returncode != 0:
                raise BuildError('clang failed on %s:\n%s' % (src, out[-3000:]))
        r = sh(['llvm-link-14'] + [o for _, o in jobs] + ['-o', os.path.join(self.dir, 'all.bcx')])
        if r.returncode != 0:
            raise BuildError('llvm-link: ' + r.stderr[-2000:])
        r = sh(['llvm-dis-14', os.path.join(self.dir, 'all.bcx'), '-o', os.path.join(self.dir, 'all.ll')])
        if r.returncode != 0:
            raise BuildError('llvm-dis: ' + r.stderr[-2000:])
        r = sh([sys.executable, os.path.join(ENGINE, 'll2c.py'), os.path.join(self.dir, 'all.ll'), self.outc] + self.roots +
               ['--type=' + t for t in self.types] + ['--cut=' + c for c in self.cuts])
        if r.returncode != 0:
            raise BuildError('ll2c: ' + r.stderr[-3000:])
        m = re.search(r'emitted (\d+) functions, (\d+) globals; externals: (.*)', r.stderr)
        md = re.search(r'external-data: (.*)', r.stderr)
        extdata = [x for x in (md.group(1).split() if md else []) if not re.match(r'_ZTV|_ZTI|_ZTS|_ZTT|_ZTC|_ZNSt|_ZSt|_ZNKSt|__dso_handle|_ZGVNSt', x)]   # libstdc++/ABI data is allowed; cppcheck data is not
        if extdata and not getattr(self, 'allow_extdata', False):
            raise BuildError('unit %s: data defined outside the encoded sources would read as zero: %s (add the defining .cpp to libs)' % (self.name, ' '.join(extdata)))
        srcs = [wp] + [os.path.join(REPO, l) for l in self.libs]
        self.info = {'unit': self.name, 'roots': self.roots, 'functions_emitted': int(m.group(1)) if m else -1,
                     'externals_stubbed': m.group(3).split() if m else [], 'cut_functions': self.cuts,
                     'sources': {os.path.relpath(s, REPO) if s.startswith(REPO) else os.path.relpath(s, VERIF):
                                 sha1(open(s, 'rb').read()) for s in srcs},
                     'build_s': round(time.time() - t0, 1)}
        os.remove(os.path.join(self.dir, 'all.ll'))
        for _, o in jobs:
            os.remove(o)
        os.remove(os.path.join(self.dir, 'all.bcx'))
        return self

    def native_objs(self):
        """g++ build of the REAL functions (wrapper + libs), for replay and translation validation."""
        with self._lock:
            if self._native is not None:
                return self._native
            wp = self.wrapper_path() if self.wrapper_text is None else os.path.join(self.dir, 'wrap_gen.cpp')
            flags = [self.std, '-O1', '-DNDEBUG', '-DVERIF_NATIVE', '-fno-access-control', '-w', '-ffunction-sections', '-fdata-sections'] + self.incs() + self.cflags
            jobs = [(wp, os.path.join(self.dir, 'n_wrap.o'))]
            for l in self.libs:
                jobs.append((os.path.join(REPO, l), os.path.join(self.dir, 'n_' + re.sub(r'\W', '_', l) + '.o')))
            procs = [(src, subprocess.Popen(['g++'] + flags + ['-c', src, '-o', out], stdout=subprocess.PIPE,
                                            stderr=subprocess.STDOUT, text=True)) for src, out in jobs]
            for src, p in procs:
                out, _ = p.communicate()
                if p.returncode != 0:
                    raise BuildError('g++ failed on %s:\n%s' % (src, out[-3000:]))
            self._native = [o for _, o in jobs]
            return self._native


# ----------------------------------------------------------------------------------------------------------- obligations
class Obl:
    def __init__(self, oid, unit, harness, lemma, bound, defines=None, backend='sat', flags=(), timeout=300, mem_gb=6,
                 unwind_start=2, unwind_max=24, kind='lemma', checks=None, tv=True, tv_vectors=200, max_rounds=16,
                 known=None, hints=None):
        self.id = oid
        self.unit = unit
        self.harness = harness             # path relative to VERIF
        self.lemma = lemma
        self.bound = bound
        self.defines = dict(defines or {})
        self.backend = backend             # sat | slice | z3 | cvc5 | cadical | kissat
        self.flags = list(flags)
        self.timeout = timeout
        self.mem_gb = mem_gb
        self.unwind_start = unwind_start
        self.unwind_max = unwind_max
        self.kind = kind                   # lemma | c13
        self.checks = checks               # None -> default for kind
        self.tv = tv
        self.tv_vectors = tv_vectors
        self.max_rounds = max_rounds
        self.known = known or []           # [(define, description, replay vector or None)]
        self.hints = hints or {}           # loop id regex -> starting bound
        self.res = {}


C13_CHECKS = ['--bounds-check', '--pointer-check', '--div-by-zero-check', '--signed-overflow-check',
              '--undefined-shift-check', '--pointer-primitive-check']
BACKENDS = {'sat': [], 'slice': ['--slice-formula'], 'z3': ['--z3'], 'cvc5': ['--cvc5'], 'cadical': ['--sat-solver', 'cadical'],
            'z3slice': ['--z3', '--slice-formula'],
            'kissat': ['--external-sat-solver', 'kissat']}


def _limit(mem_gb):
    def f():
        resource.setrlimit(resource.RLIMIT_AS, (int(mem_gb * (1 << 30)), int(mem_gb * (1 << 30))))
        os.setsid()
    return f


_gb_lock = threading.Lock()
_gb_cache = {}


def goto_binary(o, unit, extra_defs=()):
    """harness + generated C compiled ONCE per obligation with goto-cc; the deepening rounds then run cbmc on the binary"""
    defs = []
    for k, v in list(o.defines.items()) + list(extra_defs):
        defs.append('-D%s=%s' % (k, v) if v is not None else '-D%s' % k)
    key = (unit.name, o.harness, tuple(defs))
    with _gb_lock:
        if key in _gb_cache:
            return _gb_cache[key]
    gb = os.path.join(unit.dir, 'gb_%s.gb' % sha1(json.dumps([o.harness, defs]))[:12])
    cmd = ['goto-cc', '-D__CPROVER__', os.path.join(VERIF, o.harness), '-DOUTC="%s"' % unit.outc, '-I', ENGINE,
           '-I', os.path.dirname(os.path.join(VERIF, o.harness)), '-I', unit.dir] + defs + ['-o', gb]
    r = sh(cmd, cwd=unit.dir)
    res = gb if r.returncode == 0 and os.path.exists(gb) else None
    with _gb_lock:
        _gb_cache[key] = res
    return res


def run_cbmc(o, unit, bounds, extra_defs=(), trace=False, timeout=None):
    gb = goto_binary(o, unit, extra_defs) if os.environ.get('VERIF_NO_GOTOCC') != '1' else None
    if gb:
        cmd = ['cbmc', gb]
    else:
        cmd = ['cbmc', os.path.join(VERIF, o.harness), '-DOUTC="%s"' % unit.outc, '-I', ENGINE,
               '-I', os.path.dirname(os.path.join(VERIF, o.harness)), '-I', unit.dir]
        for k, v in list(o.defines.items()) + list(extra_defs):
            cmd.append('-D%s=%s' % (k, v) if v is not None else '-D%s' % k)
    cmd += ['--function', 'harness', '--drop-unused-functions', '--unwinding-assertions', '--no-standard-checks',
            '--no-malloc-may-fail', '--verbosity', '8', '--unwind', str(o.unwind_start)]
    checks = o.checks if o.checks is not None else (C13_CHECKS if o.kind == 'c13' else [])
    cmd += checks + [f for f in BACKENDS[o.backend] if not (trace and f == '--slice-formula')] + o.flags
    if bounds:
        cmd += ['--unwindset', ','.join('%s:%d' % kv for kv in sorted(bounds.items()))]
    if trace:
        cmd.append('--trace')
    t0 = time.time()
    to = timeout or o.timeout
    try:
        p = subprocess.Popen(cmd, stdout=subprocess.PIPE, stderr=subprocess.STDOUT, text=True, preexec_fn=_limit(o.mem_gb),
                             cwd=unit.dir)
        try:
            out, _ = p.communicate(timeout=to)
            out = re.sub(r'^(?:Unwinding|Not unwinding) (?:loop|recursion) .*\n', '', out, flags=re.M)
        except subprocess.TimeoutExpired:
            try:
                os.killpg(p.pid, 9)
            except Exception:
                p.kill()
            out, _ = p.communicate()
            return {'status': 'timeout', 'out': out or '', 's': time.time() - t0, 'cmd': cmd}
    except Exception as e:  # pragma: no cover
        return {'status': 'error', 'out': str(e), 's': time.time() - t0, 'cmd': cmd}
    st = 'ok'
    if 'VERIFICATION SUCCESSFUL' not in out and 'VERIFICATION FAILED' not in out:
        st = 'oom' if ('bad_alloc' in out or 'Out of memory' in out or p.returncode in (-9, -6, 134, 137)) else 'error'
    return {'status': st, 'out': out, 's': time.time() - t0, 'cmd': cmd, 'rc': p.returncode}


RES_RE = re.compile(r'^\[([^\]]+)\] (?:line \d+ |file \S+ line \d+ (?:function \S+ )?)?(.*): (SUCCESS|FAILURE)$', re.M)


def parse_results(out):
    """-> list of (property id, description, SUCCESS|FAILURE)"""
    res = []
    for m in RES_RE.finditer(out):
        res.append((m.group(1), m.group(2), m.group(3)))
    return res


def parse_stats(out):
    steps = sum(int(x) for x in re.findall(r'size of program expression: (\d+) steps', out))
    m = re.search(r'Generated (\d+) VCC\(s\), (\d+) remaining', out)
    vccs = int(m.group(1)) if m else 0
    m = re.search(r'(\d+) variables, (\d+) clauses', out)
    return steps, vccs, (int(m.group(1)), int(m.group(2))) if m else None


def parse_trace_inputs(out, descr):
    """values of ll_in[] from the trace of the failed property whose description contains descr"""
    # split the plain-text output into per-property traces
    parts = re.split(r'^Trace for (\S+):\s*$', out, flags=re.M)
    best = None
    for i in range(1, len(parts), 2):
        body = parts[i + 1]
        if descr is None or descr in body:
            best = body
            break
    if best is None and len(parts) > 2:
        best = parts[2]
    if best is None:
        return None
    return [int(m.group(1)) for m in re.finditer(r'^\s*goto_symex\$\$return_value\$\$in_rec=(\d+)ul', best, re.M)]


def discover_and_decide(o, unit, warm, extra_defs=()):
    """per-loop iterative deepening; verdict only from a run in which every unwinding assertion passes"""
    bounds = dict(o.hints)
    bounds.update(warm or {})
    rounds = []
    t0 = time.time()
    deadline = t0 + o.timeout
    last = None
    for rnd in range(1, o.max_rounds + 1):
        left = deadline - time.time()
        if left < 2:
            return {'verdict': 'INCONCLUSIVE', 'why': 'time budget %ds exhausted during bound discovery' % o.timeout,
                    'bounds': bounds, 'rounds': rounds, 'last': last}
        r = run_cbmc(o, unit, bounds, extra_defs=extra_defs, timeout=left)
        last = r
        try:
            with open(os.path.join(unit.dir, re.sub(r'\W', '_', o.id) + '.log'), 'a') as fh:
                fh.write('### round %d: %s\n%s\n' % (rnd, ' '.join(r['cmd']), r['out']))
        except Exception:
            pass
        if r['status'] != 'ok':
            return {'verdict': 'INCONCLUSIVE', 'why': r['status'] + (': ' + r['out'][-300:] if r['status'] == 'error' else ''),
                    'bounds': bounds, 'rounds': rounds, 'last': r}
        res = parse_results(r['out'])
        unw = [pid for pid, d, s in res if s == 'FAILURE' and (re.search(r'\.unwind\.\d+$', pid) or pid.endswith('.recursion'))]
        rounds.append({'round': rnd, 's': round(r['s'], 1), 'unwinding_failures': len(unw)})
        if not unw:
            return {'verdict': 'DECIDED', 'results': res, 'bounds': bounds, 'rounds': rounds, 'last': r}
        # a lemma that fails while some loop is still under-unwound fails on a path that stayed inside the bounds (the unwinding assertion cuts the
        # others), so it is a genuine counterexample: report it now (it is replayed natively like any other); only HOLDS needs the complete unwinding
        if getattr(o, 'kind', None) != 'c13' and any(s == 'FAILURE' and ('LEMMA:' in t or 'SAFETY:' in t) for _, t, s in res):
            return {'verdict': 'DECIDED', 'results': res, 'bounds': bounds, 'rounds': rounds, 'last': r, 'early': True}
        for pid in unw:
            key = re.sub(r'\.unwind\.(\d+)$', r'.\1', pid) if '.unwind.' in pid else pid[:-len('.recursion')]
            if pid.endswith('.recursion'):
                # recursion bounds are given per function name
                cur = bounds.get(key, o.unwind_start)
            else:
                cur = bounds.get(key, o.unwind_start)
            nb = cur + 1 if cur < 4 else cur * 2
            if nb > o.unwind_max and cur < o.unwind_max:
                nb = o.unwind_max
            if nb > o.unwind_max:
                return {'verdict': 'INCONCLUSIVE', 'why': 'loop %s needs more than the cap of %d unwindings' % (key, o.unwind_max),
                        'bounds': bounds, 'rounds': rounds, 'last': r}
            bounds[key] = nb
    return {'verdict': 'INCONCLUSIVE', 'why': 'more than %d deepening rounds' % o.max_rounds, 'bounds': bounds, 'rounds': rounds,
            'last': last}


# ----------------------------------------------------------------------------------------------------------- native side
def native_build(o, unit, mode, extra_defs=()):
    """mode 'real' (g++-built real functions) or 'trans' (gcc-built generated C)."""
    key = sha1(json.dumps([o.harness, sorted(o.defines.items()), sorted(extra_defs), mode]))[:12]
    exe = os.path.join(unit.dir, 'nat_%s_%s' % (mode, key))
    if os.path.exists(exe):
        return exe
    defs = []
    for k, v in list(o.defines.items()) + list(extra_defs):
        defs.append('-D%s=%s' % (k, v) if v is not None else '-D%s' % k)
    hp = os.path.join(VERIF, o.harness)
    common = ['-O0' if mode == 'trans' else '-O1', '-w', '-I', ENGINE, '-I', os.path.dirname(hp), '-I', unit.dir, '-fno-strict-aliasing'] + defs
    if mode == 'real_san':
        # real functions + harness under UBSan/ASan: a C13 counterexample is confirmed by the sanitizer aborting the run
        san = ['-fsanitize=undefined,address', '-fno-sanitize-recover=all', '-fno-omit-frame-pointer']
        srcs = [unit.wrapper_path() if unit.wrapper_text is None else os.path.join(unit.dir, 'wrap_gen.cpp')] + [os.path.join(REPO, l) for l in unit.libs]
        objs = []
        for i, src in enumerate(srcs):
            ob = exe + '.s%d.o' % i
            r = sh(['g++', unit.std, '-O1', '-g', '-DNDEBUG', '-DVERIF_NATIVE', '-fno-access-control', '-w', '-ffunction-sections', '-fdata-sections'] + san + unit.incs() + unit.cflags + ['-c', src, '-o', ob])
            if r.returncode != 0:
                raise BuildError('sanitizer build failed on %s:\n%s' % (src, (r.stdout + r.stderr)[-2000:]))
            objs.append(ob)
        ho = exe + '.o'
        r = sh(['gcc', '-std=gnu11'] + common + san + ['-DNATIVE_REAL', '-DROOTS_H="%s.roots.h"' % unit.outc, '-c', hp, '-o', ho])
        if r.returncode == 0:
            r = sh(['g++', ho] + objs + san + ['-Wl,--gc-sections', '-Wl,--unresolved-symbols=ignore-all', '-no-pie', '-o', exe])
    elif mode == 'trans':
        # compiled as C, linked with the C++ driver: libstdc++ externals the generated C calls (iostream diagnostics) resolve to the real library
        r = sh(['gcc', '-std=gnu11'] + common + ['-DNATIVE_TRANS', '-DOUTC="%s"' % unit.outc, '-c', hp, '-o', exe + '.o'])
        if r.returncode == 0:
            r = sh(['g++', exe + '.o', '-lm', '-Wl,--unresolved-symbols=ignore-all', '-no-pie', '-o', exe])
    else:
        objs = unit.native_objs()
        ho = exe + '.o'
        r = sh(['gcc', '-std=gnu11'] + common + ['-DNATIVE_REAL', '-DROOTS_H="%s.roots.h"' % unit.outc, '-c', hp, '-o', ho])
        if r.returncode == 0:
            r = sh(['g++', ho] + objs + ['-Wl,--gc-sections', '-Wl,--unresolved-symbols=ignore-all', '-no-pie', '-o', exe])
    if r.returncode != 0:
        raise BuildError('native %s build of %s failed:\n%s' % (mode, o.harness, (r.stdout + r.stderr)[-3000:]))
    return exe


def run_native(exe, vectors, timeout=120):
    inp = '\n'.join(' '.join(str(x) for x in v) for v in vectors) + '\n'
    try:
        r = subprocess.run([exe], input=inp, capture_output=True, text=True, timeout=timeout)
    except subprocess.TimeoutExpired:
        return None
    blocks = re.split(r'^== vec \d+\n', r.stdout, flags=re.M)[1:]
    return blocks


def gen_vectors(n, seed, width=96):
    rnd = random.Random(seed)
    specials = [0, 1, 2, 3, 7, 8, 15, 16, 31, 32, 63, 64, 127, 128, 255, 256, 0x7fff, 0xffff, 0x7fffffff, 0x80000000, 0xffffffff,
                (1 << 63) - 1, 1 << 63, (1 << 64) - 1, (1 << 64) - 2]
    ascii_pool = [ord(c) for c in 'aAzZ09_*?.,;:=|&!<>()[]{}+-/\\\'" %xXuUlL\n\t#~^@$']
    vecs = []
    for i in range(n):
        mode = rnd.random()
        v = []
        for j in range(width):
            r = rnd.random()
            if mode < 0.5:
                if r < 0.55:
                    v.append(rnd.choice(ascii_pool))
                elif r < 0.8:
                    v.append(rnd.randrange(0, 6))
                else:
                    v.append(rnd.choice(specials))
            else:
                if r < 0.3:
                    v.append(rnd.choice(specials))
                elif r < 0.6:
                    v.append(rnd.randrange(0, 1 << 64))
                elif r < 0.8:
                    v.append(rnd.randrange(0, 300))
                else:
                    v.append(rnd.choice(ascii_pool))
        vecs.append(v)
    return vecs


def translation_validation(o, unit, seed, extra_vectors=()):
    """same harness, same input vectors: gcc-built generated C vs g++-built real functions"""
    a = native_build(o, unit, 'trans')
    b = native_build(o, unit, 'real')
    vecs = list(extra_vectors) + gen_vectors(o.tv_vectors, seed)
    ra = run_native(a, vecs)
    rb = run_native(b, vecs)
    if ra is None or rb is None or len(ra) != len(vecs) or len(rb) != len(vecs):
        return {'ok': False, 'why': 'native run failed/timeout (%s/%s blocks of %d)' % (ra and len(ra), rb and len(rb), len(vecs)),
                'vectors': len(vecs), 'accepted': 0, 'mismatch': None}
    acc = 0
    for i, (x, y) in enumerate(zip(ra, rb)):
        if x != y:
            return {'ok': False, 'why': 'translated C and real code disagree', 'vectors': len(vecs), 'accepted': acc,
                    'mismatch': {'vector': vecs[i], 'translated': x, 'real': y}}
        if 'R rejected' not in y:
            acc += 1
    return {'ok': True, 'vectors': len(vecs), 'accepted': acc, 'mismatch': None,
            'sample': {'vector': vecs[0][:12], 'real_output': rb[0].strip().split('\n')[:6]}}


def replay_native(o, unit, values, extra_defs=(), san=False):
    exe = native_build(o, unit, 'real_san' if san else 'real', extra_defs=extra_defs)
    if san:
        inp = ' '.join(str(x) for x in values) + '\n'
        try:
            p = subprocess.run([exe], input=inp, capture_output=True, text=True, timeout=120, env=dict(os.environ, ASAN_OPTIONS='detect_leaks=0'))
        except subprocess.TimeoutExpired:
            return {'reproduced': False, 'output': 'sanitizer run timed out'}
        rep = [l for l in (p.stderr or '').split('\n') if 'runtime error' in l or 'ERROR: AddressSanitizer' in l]
        aborted = p.returncode not in (0, 1) or bool(rep)
        return {'reproduced': aborted, 'output': ('; '.join(x.strip()[-200:] for x in rep[:2]) or ('exit status %s; ' % p.returncode) + (p.stderr or p.stdout).strip()[-300:])}
    r = run_native(exe, [values])
    if not r:
        return {'reproduced': False, 'output': 'native run failed'}
    return {'reproduced': 'R FAIL' in r[0], 'output': r[0].strip()}


# ----------------------------------------------------------------------------------------------------------- known findings
def load_known():
    """known_findings.txt: 'finding: property=<id> obligation=<oid> define=<KF_x> <text>' | 'fixed: property=<id> <commit> <text>'"""
    path = os.path.join(VERIF, 'known_findings.txt')
    out = []
    if not os.path.exists(path):
        return out
    for l in open(path):
        l = l.strip()
        if not l or l[0] == '#':
            continue
        m = re.match(r'finding: property=(\S+) obligation=(\S+) define=(\S+) vector=(\S+) (.*)', l)
        if m:
            vec = [] if m.group(4) == '-' else [int(x) for x in m.group(4).split(',')]
            out.append({'property': m.group(1), 'obligation': m.group(2), 'define': m.group(3), 'vector': vec, 'text': m.group(5)})
    return out


# ----------------------------------------------------------------------------------------------------------- property run
class MemGate:
    def __init__(self, total_gb):
        self.total = total_gb
        self.used = 0
        self.cv = threading.Condition()

    def acquire(self, gb):
        gb = min(gb, self.total)
        with self.cv:
            while self.used + gb > self.total:
                self.cv.wait()
            self.used += gb
        return gb

    def release(self, gb):
        with self.cv:
            self.used -= gb
            self.cv.notify_all()


def total_mem_gb():
    try:
        for l in open('/proc/meminfo'):
            if l.startswith('MemAvailable'):
                return int(l.split()[1]) / (1 << 20)
    except Exception:
        pass
    return 16


def run_property(pid, mod, tier, seed, update_bounds=False, only=None):
    t0 = time.time()
    os.makedirs(WORK, exist_ok=True)
    exit_code = 0
    lines = []
    try:
        units = mod.units() if callable(getattr(mod, 'units', None)) else mod.UNITS
        obls = mod.obligations(tier)
    except StaleAnchor as e:
        log('STALE-ANCHOR %s' % e)
        write_evidence(pid, mod, tier, seed, [], {}, time.time() - t0, 0, note='STALE-ANCHOR: %s' % e)
        return 3
    if only:
        obls = [o for o in obls if re.search(only, o.id)]
    used_units = {}
    for o in obls:
        used_units[o.unit] = units[o.unit]
    log('[%s] tier=%s: %d obligations over %d units; building IR from %s ...' % (pid, tier, len(obls), len(used_units), REPO))
    # --- build units in parallel
    try:
        with cf.ThreadPoolExecutor(max_workers=min(8, max(1, len(used_units)))) as ex:
            list(ex.map(lambda u: u.build(), used_units.values()))
    except StaleAnchor as e:
        log('STALE-ANCHOR %s' % e)
        write_evidence(pid, mod, tier, seed, [], {}, time.time() - t0, 0, note='STALE-ANCHOR: %s' % e)
        return 3
    except BuildError as e:
        log('BUILD-ERROR (the encoded source no longer builds against the harness environment; nothing decided)\n%s' % e)
        write_evidence(pid, mod, tier, seed, [], {}, time.time() - t0, 0, note='BUILD-ERROR')
        return 3
    for u in used_units.values():
        log('  unit %-14s %3d functions from IR, stubs used: %s  (%.1fs)' % (u.name, u.info['functions_emitted'],
                                                                          ','.join(u.info['externals_stubbed']) or '-', u.info['build_s']))
    known = [k for k in load_known() if k['property'] == pid]
    warm_path = os.path.join(VERIF, 'bounds', pid + '.json')
    warm = json.load(open(warm_path)) if os.path.exists(warm_path) else {}
    gate = MemGate(max(8, total_mem_gb() * 0.8))
    tv_done = {}
    tv_lock = threading.Lock()

    def work(o):
        unit = used_units[o.unit]
        res = {'id': o.id, 'lemma': o.lemma, 'bound': o.bound, 'backend': o.backend, 'kind': o.kind}
        try:
            # translation validation once per (harness, defines)
            if o.tv:
                key = (o.harness, tuple(sorted(o.defines.items())))
                with tv_lock:
                    todo = key not in tv_done
                    if todo:
                        tv_done[key] = None
                if todo:
                    tvr = translation_validation(o, unit, seed, extra_vectors=getattr(mod, 'tv_vectors', lambda o: [])(o))
                    tv_done[key] = tvr
                    res['tv'] = tvr
                    if not tvr['ok']:
                        res['verdict'] = 'ENCODING-MISMATCH'
                        res['why'] = tvr['why']
                        return res
            kfs = [k for k in known if k['obligation'] == o.id or re.fullmatch(k['obligation'], o.id)]
            extra = [(k['define'], None) for k in kfs]
            g = gate.acquire(o.mem_gb)
            try:
                d = discover_and_decide(o, unit, warm.get(o.id), extra_defs=extra)
            finally:
                gate.release(g)
            res['rounds'] = d.get('rounds')
            res['bounds'] = d.get('bounds')
            last = d.get('last') or {}
            res['s'] = round(sum(r['s'] for r in d.get('rounds') or []) or last.get('s', 0), 1)
            steps, vccs, sat = parse_stats(last.get('out', ''))
            res['steps'], res['vccs'], res['sat'] = steps, vccs, sat
            res['known'] = []
            for k in kfs:
                if k['vector']:
                    rp = replay_native(o, unit, k['vector'], san=(o.kind == 'c13'))
                    res['known'].append({'define': k['define'], 'text': k['text'], 'still_fails': rp['reproduced']})
            if d['verdict'] != 'DECIDED':
                res['verdict'] = 'INCONCLUSIVE'
                res['why'] = d['why']
                return res
            results = d['results']
            lem = [(p, t, s) for p, t, s in results if 'LEMMA:' in t or 'SAFETY:' in t]
            wit = [(p, t, s) for p, t, s in results if 'WITNESS:' in t]
            other = [(p, t, s) for p, t, s in results if s == 'FAILURE' and 'LEMMA:' not in t and 'WITNESS:' not in t and 'SAFETY:' not in t]
            res['assertions'] = len(results)
            res['witnesses'] = len(wit)
            fails = [(p, t) for p, t, s in lem if s == 'FAILURE'] + ([(p, t) for p, t, s in other] if o.kind == 'c13' else [])
            # a failed lemma is witnessed by a concrete path, so it is examined even if some reachability witness is not met
            if not fails and (not wit or any(s == 'SUCCESS' for _, _, s in wit)):
                res['verdict'] = 'HARNESS-VACUOUS'
                res['why'] = 'witness assertion(s) not violated: ' + '; '.join(t for _, t, s in wit if s == 'SUCCESS')
                return res
            if not lem and o.kind != 'c13':
                res['verdict'] = 'HARNESS-VACUOUS'
                res['why'] = 'no lemma assertion reached'
                return res
            if not fails:
                res['verdict'] = 'HOLDS'
                return res
            # counterexample: get the trace, replay natively
            g = gate.acquire(o.mem_gb)
            try:
                tr = run_cbmc(o, unit, d['bounds'], extra_defs=extra, trace=True, timeout=max(60, o.timeout))
            finally:
                gate.release(g)
            vals = parse_trace_inputs(tr.get('out', ''), fails[0][1]) if tr['status'] == 'ok' else None
            res['failed'] = [t for _, t in fails]
            res['cex_inputs'] = vals
            if vals is None:
                res['verdict'] = 'INCONCLUSIVE'
                res['why'] = 'counterexample found but no trace could be extracted (%s)' % tr['status']
                return res
            if o.kind == 'c13' and not any('LEMMA:' in t or 'SAFETY:' in t for _, t in fails):
                # standard-check failure (overflow, shift, bounds, pointer): confirmed only if UBSan/ASan aborts the g++-built real code on the same input
                rp = replay_native(o, unit, vals, extra_defs=extra, san=True)
                res['replay'] = rp
                res['verdict'] = 'VIOLATION' if rp['reproduced'] else 'C13-REPORT'
                return res
            rp = replay_native(o, unit, vals, extra_defs=extra)
            res['replay'] = rp
            res['verdict'] = 'VIOLATION' if rp['reproduced'] else 'ENCODING-MISMATCH'
            if not rp['reproduced']:
                res['why'] = 'solver counterexample does not reproduce against the g++-built real code'
            return res
        except BuildError as e:
            res['verdict'] = 'BUILD-ERROR'
            res['why'] = str(e)[-1500:]
            return res

    results = []
    with cf.ThreadPoolExecutor(max_workers=NCPU) as ex:
        futs = {ex.submit(work, o): o for o in obls}
        for f in cf.as_completed(futs):
            o = futs[f]
            try:
                r = f.result()
            except Exception as e:  # pragma: no cover
                import traceback
                r = {'id': o.id, 'lemma': o.lemma, 'bound': o.bound, 'verdict': 'INTERNAL-ERROR', 'why': traceback.format_exc()[-1500:]}
            results.append(r)
            log('  %-34s %-17s %6.1fs  %s' % (r['id'], r['verdict'], r.get('s', 0), (r.get('why') or '')[:160].replace('\n', ' ')))
    results.sort(key=lambda r: [o.id for o in obls].index(r['id']))
    # --- verdict
    os.makedirs(os.path.join(VERIF, 'replays'), exist_ok=True)
    nviol = 0
    seen_err = set()
    seen_kf = set()
    for r in results:
        o = [x for x in obls if x.id == r['id']][0]
        for k in r.get('known') or []:
            if k['text'] in seen_kf:
                continue
            seen_kf.add(k['text'])
            # a finding given for a family of obligations (regex) counts as reproduced if its input fails on any of them
            fails_somewhere = any(k2['still_fails'] for r2 in results for k2 in (r2.get('known') or []) if k2['text'] == k['text'])
            if fails_somewhere:
                log('KNOWN-FINDING: property=%s %s' % (pid, k['text']))
            else:
                log('NOTE: known finding no longer reproduces (%s); its blocking assumption is still applied' % k['text'])
        if r['verdict'] == 'VIOLATION':
            nviol += 1
            rp = os.path.join(VERIF, 'replays', '%s_%s.json' % (pid, re.sub(r'\W', '_', r['id'])))
            json.dump({'property': pid, 'obligation': r['id'], 'harness': o.harness, 'unit': o.unit, 'defines': o.defines,
                       'inputs': r['cex_inputs'], 'failed_assertions': r['failed'], 'native_output': r['replay']['output'],
                       'lemma': o.lemma, 'how': './check %s --replay %s' % (pid, os.path.relpath(rp, VERIF))}, open(rp, 'w'), indent=1)
            log('VIOLATION property=%s replay=%s' % (pid, rp))
            log('   lemma: %s\n   inputs: %s\n   native replay against the g++-built real code: %s' % (
                o.lemma, r['cex_inputs'], '; '.join(l for l in r['replay']['output'].split('\n') if 'FAIL' in l or l.startswith('O ') or 'runtime error' in l or 'Sanitizer' in l or 'exit status' in l)))
            exit_code = 1
        elif r['verdict'] == 'ENCODING-MISMATCH':
            exit_code = max(exit_code, 2) if exit_code != 1 else 1
            log('ENCODING-MISMATCH %s: %s %s' % (r['id'], r.get('why'), json.dumps((r.get('tv') or {}).get('mismatch'))[:600]))
        elif r['verdict'] in ('HARNESS-VACUOUS',):
            exit_code = max(exit_code, 4) if exit_code != 1 else 1
        elif r['verdict'] in ('BUILD-ERROR', 'INTERNAL-ERROR'):
            exit_code = max(exit_code, 3) if exit_code != 1 else 1
            if r.get('why') not in seen_err:
                seen_err.add(r.get('why'))
                log('%s %s: %s' % (r['verdict'], r['id'], r.get('why')))
        elif r['verdict'] == 'C13-REPORT':
            log('C13-REPORT %s: standard check(s) failed: %s (inputs %s) -- triaged by reading, see DESIGN.md' % (r['id'], '; '.join(r['failed'][:4]), r['cex_inputs']))
    if update_bounds:
        nb = dict(warm)
        for r in results:
            if r.get('bounds') and r['verdict'] in ('HOLDS', 'VIOLATION', 'C13-REPORT', 'HARNESS-VACUOUS', 'ENCODING-MISMATCH'):
                nb[r['id']] = r['bounds']
        json.dump(nb, open(warm_path, 'w'), indent=1, sort_keys=True)
    wall = time.time() - t0
    write_evidence(pid, mod, tier, seed, results, {n: u.info for n, u in used_units.items()}, wall, nviol)
    nh = sum(1 for r in results if r['verdict'] == 'HOLDS')
    ni = sum(1 for r in results if r['verdict'] == 'INCONCLUSIVE')
    log('[%s] %d obligations: %d hold within their bounds, %d violations, %d inconclusive, %d other; %.0fs wall' % (
        pid, len(results), nh, nviol, ni, len(results) - nh - nviol - ni, wall))
    return exit_code


def write_evidence(pid, mod, tier, seed, results, unitinfo, wall, nviol, note=None):
    meta = getattr(mod, 'META', {})
    samples = []
    for r in results:
        s = {'obligation': r['id'], 'lemma': r.get('lemma'), 'bound': r.get('bound'), 'verdict': r['verdict'], 'backend': r.get('backend'),
             'solver_s': r.get('s'), 'unwindset_discovered': r.get('bounds'), 'deepening_rounds': len(r.get('rounds') or []),
             'ssa_steps': r.get('steps'), 'vccs': r.get('vccs')}
        if r.get('why'):
            s['why'] = r['why'][:300]
        if r.get('cex_inputs') is not None:
            s['counterexample_inputs'] = r['cex_inputs']
        if r.get('tv'):
            s['translation_validation'] = {k: r['tv'].get(k) for k in ('vectors', 'accepted', 'ok', 'sample')}
        samples.append(s)
    tv_total = sum((r.get('tv') or {}).get('accepted', 0) for r in results)
    replays = sum(1 for r in results if r.get('replay')) + sum(len(r.get('known') or []) for r in results)
    ev = {
        'property_id': pid, 'tier': tier, 'seed': seed, 'level': 'model_checking',
        'coverage': {
            'states': max(1, sum(r.get('steps') or 0 for r in results)),
            'transitions': max(1, sum(r.get('vccs') or 0 for r in results)),
            'traces_validated_against_impl': tv_total + replays,
            'samples': samples or [{'note': note}],
            'obligations': len(results),
            'discharged': sum(1 for r in results if r['verdict'] == 'HOLDS'),
            'inconclusive': sum(1 for r in results if r['verdict'] == 'INCONCLUSIVE'),
            'checker_cmd': 'cbmc <harness>.c -DOUTC=<C generated from clang-14 IR of the real sources> --function harness '
                           '--drop-unused-functions --unwinding-assertions --unwindset <discovered> [--z3|--slice-formula]',
            'trusted_base': ['clang++-14 (source -> LLVM IR)', 'engine/ll2c.py (IR -> C; validated every run natively against g++ build)',
                             'engine/stubs.h (environment models)', 'cbmc 6.11.0 + MiniSat/Z3 4.8.12'],
            'units': unitinfo,
            'explanation': ('states = SSA steps of the unwound programs summed over obligations; transitions = verification conditions '
                            'generated; traces_validated_against_impl = input vectors on which gcc-built generated C and g++-built real '
                            'functions were compared through the same harness, plus natively replayed counterexamples. ') + (note or ''),
            'outside_claim': meta.get('outside', ''),
        },
        'assumptions': meta.get('assumptions', []),
        'wall_s': round(wall, 1),
        'violations': nviol,
    }
    os.makedirs(os.path.join(VERIF, 'evidence'), exist_ok=True)
    with open(os.path.join(VERIF, 'evidence', pid + '.json'), 'w') as fh:
        json.dump(ev, fh, indent=1)
