#!/usr/bin/env python3
"""ll2c.py -- prototype: LLVM-14 textual IR (typed pointers, x86-64) -> C for CBMC.

usage: ll2c.py in.ll out.c root_fn [root_fn...]
Only functions reachable from the roots are emitted.  Everything that is only
declared in the module becomes an `extern` prototype (resolved by stubs.c).
"""
import re, sys, collections

TOK = re.compile(r'''
   (?P<ws>\s+)
 | (?P<str>c?"[^"]*")
 | (?P<id>[%@!#$](?:"[^"]*"|[-a-zA-Z$._0-9]+))
 | (?P<num>-?\d+\.\d+(?:e[+-]?\d+)?|0x[KLMHR]?[0-9A-Fa-f]+|-?\d+)
 | (?P<word>[a-zA-Z_][a-zA-Z0-9_.]*)
 | (?P<punct>\.\.\.|[(){}\[\]<>=,*:!|])
''', re.X)


def tokenize(line):
    out = []
    pos = 0
    n = len(line)
    while pos < n:
        if line[pos] == ';':
            break
        m = TOK.match(line, pos)
        if not m:
            raise SyntaxError('tokenize: %r at %d in %r' % (line[pos:pos + 20], pos, line[:200]))
        pos = m.end()
        k = m.lastgroup
        if k == 'ws':
            continue
        out.append(m.group())
    return out


class P:
    """token cursor"""

    def __init__(self, toks):
        self.t = toks
        self.i = 0

    def peek(self, k=0):
        return self.t[self.i + k] if self.i + k < len(self.t) else None

    def next(self):
        x = self.t[self.i]
        self.i += 1
        return x

    def accept(self, x):
        if self.peek() == x:
            self.i += 1
            return True
        return False

    def expect(self, x):
        y = self.next()
        if y != x:
            raise SyntaxError('expected %r got %r in %r' % (x, y, ' '.join(self.t)[:300]))

    def eof(self):
        return self.i >= len(self.t)


PARAM_ATTRS = {'noundef', 'nonnull', 'nocapture', 'readonly', 'readnone', 'writeonly', 'noalias', 'signext', 'zeroext',
               'returned', 'inreg', 'nest', 'immarg', 'swiftself', 'nofree', 'inalloca', 'swifterror', 'noundef',
               'writable'}
FN_ATTR_WORDS = {'nounwind', 'noreturn', 'readonly', 'readnone', 'writeonly', 'argmemonly', 'inaccessiblememonly',
                 'nofree', 'nosync', 'willreturn', 'mustprogress', 'norecurse', 'uwtable', 'noinline', 'alwaysinline',
                 'optsize', 'minsize', 'cold', 'hot', 'inlinehint', 'nobuiltin', 'builtin', 'speculatable', 'convergent',
                 'nocallback', 'noduplicate', 'returns_twice', 'ssp', 'sspstrong', 'allocsize', 'nomerge',
                 'inaccessiblemem_or_argmemonly', 'optnone', 'naked', 'nonlazybind', 'sanitize_address', 'strictfp',
                 'null_pointer_is_valid', 'allockind', 'memory'}
LINKAGE = {'private', 'internal', 'available_externally', 'linkonce', 'weak', 'common', 'appending', 'extern_weak',
           'linkonce_odr', 'weak_odr', 'external', 'dso_local', 'dso_preemptable', 'default', 'hidden', 'protected',
           'unnamed_addr', 'local_unnamed_addr', 'thread_local', 'dllimport', 'dllexport', 'fastcc', 'coldcc', 'ccc',
           'tail', 'musttail', 'notail', 'externally_initialized'}


def parse_type(p, allow_fn=True):
    t = p.next()
    if t == 'void':
        ty = ('void',)
    elif re.fullmatch(r'i\d+', t):
        ty = ('int', int(t[1:]))
    elif t in ('float', 'double', 'x86_fp80', 'half', 'fp128'):
        ty = ('fp', t)
    elif t in ('label', 'metadata', 'token'):
        ty = (t,)
    elif t == 'ptr':
        ty = ('ptr', ('int', 8))
    elif t.startswith('%'):
        ty = ('named', t)
    elif t == '{':
        el = []
        if not p.accept('}'):
            while True:
                el.append(parse_type(p))
                if p.accept('}'):
                    break
                p.expect(',')
        ty = ('struct', tuple(el), False)
    elif t == '<' and p.peek() == '{':
        p.next()
        el = []
        if not p.accept('}'):
            while True:
                el.append(parse_type(p))
                if p.accept('}'):
                    break
                p.expect(',')
        p.expect('>')
        ty = ('struct', tuple(el), True)
    elif t == '[':
        n = int(p.next())
        p.expect('x')
        e = parse_type(p)
        p.expect(']')
        ty = ('array', n, e)
    elif t == '<':
        n = int(p.next())
        p.expect('x')
        e = parse_type(p)
        p.expect('>')
        ty = ('vector', n, e)
    elif t == 'opaque':
        ty = ('opaque',)
    else:
        raise SyntaxError('type? %r in %r' % (t, ' '.join(p.t)[:300]))
    while True:
        if p.peek() == '*':
            p.next()
            ty = ('ptr', ty)
        elif p.peek() == 'addrspace':
            p.next(); p.expect('('); p.next(); p.expect(')')
        elif p.peek() == '(' and allow_fn:
            # function type
            p.next()
            params = []
            va = False
            if not p.accept(')'):
                while True:
                    if p.accept('...'):
                        va = True
                    else:
                        params.append(parse_type(p))
                        skip_param_attrs(p)
                    if p.accept(')'):
                        break
                    p.expect(',')
            ty = ('func', ty, tuple(params), va)
        else:
            break
    return ty


def skip_param_attrs(p):
    attrs = {}
    while True:
        t = p.peek()
        if t in PARAM_ATTRS:
            p.next()
            attrs[t] = True
        elif t in ('align', 'dereferenceable', 'dereferenceable_or_null'):
            p.next()
            if p.accept('('):
                p.next(); p.expect(')')
            else:
                p.next()
        elif t in ('sret', 'byval', 'byref', 'preallocated', 'elementtype'):
            p.next()
            if p.accept('('):
                ty = parse_type(p)
                p.expect(')')
                attrs[t] = ty
            else:
                attrs[t] = True
        else:
            break
    return attrs


CONST_OPS = {'getelementptr', 'bitcast', 'ptrtoint', 'inttoptr', 'trunc', 'zext', 'sext', 'add', 'sub', 'mul', 'and', 'or',
             'xor', 'shl', 'lshr', 'ashr', 'icmp', 'select', 'addrspacecast'}


def parse_value(p, ty):
    t = p.next()
    if ty == ('metadata',):
        return ('undef',)
    if t[0] == '%':
        return ('local', t)
    if t[0] == '@':
        return ('global', t)
    if t in ('true', 'false'):
        return ('int', 1 if t == 'true' else 0)
    if t == 'null':
        return ('null',)
    if t in ('undef', 'poison'):
        return ('undef',)
    if t == 'zeroinitializer':
        return ('zero',)
    if t == 'none':
        return ('undef',)
    if re.fullmatch(r'-?\d+', t):
        return ('int', int(t))
    if re.fullmatch(r'-?\d+\.\d+(e[+-]?\d+)?|0x[KLMHR]?[0-9A-Fa-f]+', t):
        return ('fpconst', t)
    if t.startswith('c"'):
        raw = t[2:-1]
        b = bytearray()
        i = 0
        while i < len(raw):
            if raw[i] == '\\' and raw[i + 1] == '\\':
                b.append(92)
                i += 2
            elif raw[i] == '\\':
                b.append(int(raw[i + 1:i + 3], 16))
                i += 3
            else:
                b.append(ord(raw[i]))
                i += 1
        return ('cstr', bytes(b))
    if t == '{' or (t == '<' and p.peek() == '{'):
        packed = t == '<'
        if packed:
            p.next()
        el = []
        if not p.accept('}'):
            while True:
                et = parse_type(p)
                ev = parse_value(p, et)
                el.append((et, ev))
                if p.accept('}'):
                    break
                p.expect(',')
        if packed:
            p.expect('>')
        return ('cstruct', el)
    if t == '[':
        el = []
        if not p.accept(']'):
            while True:
                et = parse_type(p)
                ev = parse_value(p, et)
                el.append((et, ev))
                if p.accept(']'):
                    break
                p.expect(',')
        return ('carray', el)
    if t == '<':
        el = []
        while True:
            et = parse_type(p)
            ev = parse_value(p, et)
            el.append((et, ev))
            if p.accept('>'):
                break
            p.expect(',')
        return ('cvector', el)
    if t in CONST_OPS:
        flags = []
        while p.peek() in ('inbounds', 'nuw', 'nsw', 'exact', 'inrange'):
            flags.append(p.next())
        pred = None
        if t == 'icmp':
            pred = p.next()
        p.expect('(')
        args = []
        srcty = None
        if t == 'getelementptr':
            srcty = parse_type(p)
            p.expect(',')
        while True:
            p.accept('inrange')
            at = parse_type(p)
            av = parse_value(p, at)
            args.append((at, av))
            if p.accept('to'):
                dst = parse_type(p)
                p.expect(')')
                return ('cexpr', t, args, dst)
            if p.accept(')'):
                break
            p.expect(',')
        return ('cexpr', t, args, srcty if t == 'getelementptr' else pred)
    if t == 'blockaddress' or t == 'dso_local_equivalent':
        raise SyntaxError('unsupported const ' + t)
    raise SyntaxError('value? %r in %r' % (t, ' '.join(p.t)[:300]))


class Module:
    def __init__(self):
        self.types = {}      # name -> type
        self.globals = collections.OrderedDict()    # name -> dict
        self.funcs = collections.OrderedDict()      # name -> dict (defined)
        self.decls = {}      # name -> dict
        self.attrs = {}      # '#N' -> set(words)


def parse_module(text):
    m = Module()
    lines = text.split('\n')
    i = 0
    n = len(lines)
    while i < n:
        line = lines[i]
        i += 1
        s = line.strip()
        if not s or s[0] == ';':
            continue
        if s.startswith('source_filename') or s.startswith('target ') or s[0] == '!' or s[0] == '$' or s.startswith('module asm'):
            continue
        if s.startswith('attributes #'):
            mm = re.match(r'attributes (#\d+) = \{(.*)\}', s)
            words = set(re.findall(r'(?<!")\b([a-z_]+)\b(?!")', re.sub(r'"[^"]*"(="[^"]*")?', '', mm.group(2))))
            m.attrs[mm.group(1)] = words
            continue
        if s[0] == '%':
            toks = tokenize(s)
            p = P(toks)
            name = p.next()
            p.expect('=')
            p.expect('type')
            m.types[name] = parse_type(p)
            continue
        if s[0] == '@':
            toks = tokenize(s)
            p = P(toks)
            name = p.next()
            p.expect('=')
            g = {'name': name, 'external': False, 'const': False}
            while p.peek() in LINKAGE or p.peek() in ('addrspace',):
                t = p.next()
                if t in ('external', 'extern_weak'):
                    g['external'] = True
                if t == 'thread_local' and p.peek() == '(':
                    p.next(); p.next(); p.expect(')')
            kind = p.next()
            if kind == 'alias' or kind == 'ifunc':
                ty = parse_type(p)
                p.expect(',')
                while p.peek() in LINKAGE:
                    p.next()
                at = parse_type(p)
                av = parse_value(p, at)
                g['alias'] = (at, av)
                g['type'] = ty
                m.globals[name] = g
                continue
            g['const'] = (kind == 'constant')
            g['type'] = parse_type(p)
            if not g['external'] and not p.eof() and p.peek() != ',':
                g['init'] = parse_value(p, g['type'])
            else:
                g['init'] = None
            m.globals[name] = g
            continue
        if s.startswith('declare'):
            toks = tokenize(s)
            f = parse_fn_header(P(toks[1:]))
            m.decls[f['name']] = f
            continue
        if s.startswith('define'):
            toks = tokenize(s)
            f = parse_fn_header(P(toks[1:]))
            body = []
            while i < n and lines[i].strip() != '}':
                body.append(lines[i])
                i += 1
            i += 1
            f['body_lines'] = body
            m.funcs[f['name']] = f
            continue
        raise SyntaxError('toplevel? ' + s[:200])
    return m


def parse_fn_header(p):
    f = {'attrs': set()}
    while p.peek() in LINKAGE or p.peek() in PARAM_ATTRS or p.peek() in ('align', 'dereferenceable', 'dereferenceable_or_null'):
        t = p.next()
        if t in ('align', 'dereferenceable', 'dereferenceable_or_null'):
            if p.accept('('):
                p.next(); p.expect(')')
            else:
                p.next()
    # return type: parse without swallowing the '(' of the parameter list
    f['ret'] = parse_type_nofn(p)
    f['name'] = p.next()
    p.expect('(')
    params = []
    va = False
    if not p.accept(')'):
        while True:
            if p.accept('...'):
                va = True
            else:
                pt = parse_type(p)
                pa = skip_param_attrs(p)
                pn = None
                if p.peek() and p.peek()[0] == '%':
                    pn = p.next()
                params.append((pt, pn, pa))
            if p.accept(')'):
                break
            p.expect(',')
    f['params'] = params
    f['vararg'] = va
    while not p.eof():
        t = p.next()
        if t[0] == '#':
            f['attrs'].add(t)
        elif t in FN_ATTR_WORDS:
            f['attrs'].add(t)
        elif t == '{':
            break
    return f


def parse_type_nofn(p):
    """type whose trailing '(' is NOT a function-type suffix (return types)"""
    save = p.i
    ty = parse_type(p, allow_fn=False)
    if p.peek() == '(':
        # "(...)" followed by '*' means a function-pointer type after all
        j = p.i
        depth = 0
        while j < len(p.t):
            if p.t[j] == '(':
                depth += 1
            elif p.t[j] == ')':
                depth -= 1
                if depth == 0:
                    break
            j += 1
        if j + 1 < len(p.t) and p.t[j + 1] == '*':
            p.i = save
            return parse_type(p)
    return ty


# ---------------------------------------------------------------- layout

class Layout:
    def __init__(self, m):
        self.m = m
        self.cache = {}

    def resolve(self, ty):
        while ty[0] == 'named':
            ty = self.m.types[ty[1]]
        return ty

    def size_align(self, ty):
        key = ty
        if key in self.cache:
            return self.cache[key]
        r = self._sa(ty)
        self.cache[key] = r
        return r

    def _sa(self, ty):
        k = ty[0]
        if k == 'named':
            return self.size_align(self.m.types[ty[1]])
        if k == 'int':
            n = ty[1]
            if n <= 8:
                return (1, 1)
            if n <= 16:
                return (2, 2)
            if n <= 32:
                return (4, 4)
            if n <= 64:
                return (8, 8)
            return (16, 16)
        if k == 'ptr':
            return (8, 8)
        if k == 'fp':
            return {'float': (4, 4), 'double': (8, 8), 'x86_fp80': (16, 16), 'half': (2, 2), 'fp128': (16, 16)}[ty[1]]
        if k == 'array':
            s, a = self.size_align(ty[2])
            return (s * ty[1], a)
        if k == 'vector':
            s, a = self.size_align(ty[2])
            tot = s * ty[1]
            al = 1
            while al < tot:
                al *= 2
            return (tot, al)
        if k == 'struct':
            off = 0
            al = 1
            for e in ty[1]:
                s, a = self.size_align(e)
                if ty[2]:
                    a = 1
                off = (off + a - 1) // a * a
                off += s
                al = max(al, a)
            off = (off + al - 1) // al * al
            return (off, al)
        if k == 'opaque':
            return (0, 1)
        if k == 'func':
            return (1, 1)
        raise ValueError('size of %r' % (ty,))

    def field_offset(self, ty, idx):
        ty = self.resolve(ty)
        assert ty[0] == 'struct'
        off = 0
        for j, e in enumerate(ty[1]):
            s, a = self.size_align(e)
            if ty[2]:
                a = 1
            off = (off + a - 1) // a * a
            if j == idx:
                return off
            off += s
        raise IndexError


# ---------------------------------------------------------------- emission

LIBC = {'strlen','tolower','toupper','isxdigit','isdigit','isalpha','isalnum','isspace','isprint','isupper','islower','bcmp','memcmp','memchr','strchr','strcmp','strncmp','strtoull','strtoll','strtol','strtoul','strtod','__errno_location','pow','abs','strstr','strrchr','abort','exit','read','write','isalnum','isspace','memrchr','strtof','strtold'}


AUTO_LL = set()   # C library functions that are only declared in the module: emitted as ll_<name> (defined in stubs.h or left undefined)


def cname(n):
    if n[0] == '@' and (n[1:] in LIBC or n[1:] in AUTO_LL):
        return 'll_' + n[1:]
    """LLVM name (%x / @x) -> C identifier"""
    pre = 'v_' if n[0] == '%' else 'g_' if n[1:2].isdigit() or n[1] == '.' or n[1] == '"' else ''
    s = n[1:]
    if s.startswith('"'):
        s = s[1:-1]
    s = re.sub(r'[^A-Za-z0-9_]', lambda mo: '_%02x' % ord(mo.group()), s)
    if n[0] == '%':
        return 'v_' + s
    if pre:
        return pre + s
    return s


class Emitter:
    def __init__(self, m, roots, rename=None):
        self.m = m
        self.L = Layout(m)
        self.roots = roots
        self.out = []
        self.aggs = {}      # type -> C struct name
        self.agg_defs = []
        self.used_globals = []
        self.used_funcs = []
        self.seen = set()
        self.protos = {}
        self.nounwind_cache = {}
        self.alias_defs = []

    # ---- types
    def ctype(self, ty):
        ty0 = ty
        k = ty[0]
        if k == 'named':
            r = self.L.resolve(ty)
            if r[0] in ('struct', 'array'):
                return self.aggtype(ty)
            return self.ctype(r)
        if k == 'int':
            n = ty[1]
            if n <= 8:
                return 'uint8_t'
            if n <= 16:
                return 'uint16_t'
            if n <= 32:
                return 'uint32_t'
            if n <= 64:
                return 'uint64_t'
            return 'unsigned __int128'
        if k == 'ptr':
            return 'uint8_t*'
        if k == 'fp':
            return {'float': 'float', 'double': 'double', 'x86_fp80': 'long double', 'half': 'float', 'fp128': 'long double'}[ty[1]]
        if k == 'void':
            return 'void'
        if k in ('struct', 'array', 'vector'):
            return self.aggtype(ty)
        if k == 'opaque':
            return 'uint8_t'
        raise ValueError('ctype %r' % (ty,))

    def sctype(self, ty):
        """signed C type for an int type"""
        n = ty[1]
        if n <= 8:
            return 'int8_t'
        if n <= 16:
            return 'int16_t'
        if n <= 32:
            return 'int32_t'
        if n <= 64:
            return 'int64_t'
        return '__int128'

    def aggtype(self, ty):
        key = ty
        if key in self.aggs:
            return self.aggs[key]
        name = 'agg%d' % len(self.aggs)
        self.aggs[key] = 'struct ' + name
        r = self.L.resolve(ty)
        if ty[0] == 'named' and ty[1].startswith('%union.') and r[0] == 'struct' and not __import__('os').environ.get('LL2C_NO_UNIONBYTES'):
            # C/C++ unions (std::string's {capacity | local buffer}): LLVM models them as the largest member plus padding.
            # Emit plain bytes so that character stores into the buffer are array updates, not updates of a 64-bit field.
            sz, al = self.L.size_align(ty)
            self.union_types = getattr(self, 'union_types', set()) | {key}
            self.agg_defs.append('struct %s { uint8_t b[%d]; } __attribute__((aligned(%d)));' % (name, max(sz, 1), al))
            return 'struct ' + name
        if r[0] == 'struct':
            fields = []
            for j, e in enumerate(r[1]):
                fields.append(self.cfield(e, 'f%d' % j))
            packed = ' __attribute__((packed))' if r[2] else ''
            if not fields:
                fields = ['uint8_t _empty[0];']
            self.agg_defs.append('struct %s { %s }%s;' % (name, ' '.join(fields), packed))
        elif r[0] in ('array', 'vector'):
            # arrays of arrays of scalars are emitted flat ([4 x [8 x i8]] -> a[32]): all accesses are byte offsets, and CBMC resolves a
            # byte-offset store into a nested array to an out-of-range index of the INNER array (observed: buf[1][0] became buf[0].a[8])
            cnt, el = r[1], r[2]
            while self.L.resolve(el)[0] == 'array' and self.L.resolve(self.L.resolve(el)[2])[0] in ('int', 'ptr', 'array'):
                cnt *= self.L.resolve(el)[1]
                el = self.L.resolve(el)[2]
            self.agg_defs.append('struct %s { %s };' % (name, self.cfield(el, 'a', cnt)))
        else:
            raise ValueError(r)
        return 'struct ' + name

    def cfield(self, ty, nm, count=None):
        ct = self.ctype(ty)
        if count is not None:
            return '%s %s[%d];' % (ct, nm, max(count, 0)) if count > 0 else '%s %s[0];' % (ct, nm)
        return '%s %s;' % (ct, nm)

    # ---- constants (usable in static initialisers)
    def const_init(self, ty, v):
        r = self.L.resolve(ty)
        k = v[0]
        if k == 'zero' or k == 'undef':
            if r[0] in ('struct', 'array', 'vector'):
                return '{0}'
            return '0'
        if k == 'int':
            if r[0] == 'int':
                val = v[1] & ((1 << r[1]) - 1)
                if r[1] > 64:
                    return '(((unsigned __int128)%dULL << 64) | %dULL)' % (val >> 64, val & ((1 << 64) - 1))
                return '%dULL' % val
            return '%d' % v[1]
        if k == 'null':
            return '(uint8_t*)0'
        if k == 'fpconst':
            return self.fpconst(r, v[1])
        if k == 'cstr':
            return '{{' + ','.join(str(b) for b in v[1]) + '}}'
        if k == 'carray' or k == 'cvector':
            if v[1] and r[0] == 'array' and self.L.resolve(r[2])[0] == 'array' and self.L.resolve(self.L.resolve(r[2])[2])[0] in ('int', 'ptr', 'array'):
                return '{{' + ','.join(self.flat_items(r, v)) + '}}'     # nested arrays are emitted flat (see aggtype)
            return '{{' + ','.join(self.const_init(et, ev) for et, ev in v[1]) + '}}' if v[1] else '{0}'
        if k == 'cstruct':
            if ty in getattr(self, 'union_types', ()):
                return '{{0}}'   # union-typed constant: only all-zero initialisers are expected
            return '{' + ','.join(self.const_init(et, ev) for et, ev in v[1]) + '}' if v[1] else '{0}'
        if k == 'global':
            self.need_global(v[1])
            gg = self.m.globals.get(v[1])
            if gg is not None and 'alias' not in gg and gg['init'] is None:
                return '(uint8_t*)%s_store' % cname(v[1])
            return '(uint8_t*)&%s' % cname(v[1])
        if k == 'cexpr':
            return self.cexpr(v)
        raise ValueError('const_init %r' % (v,))

    def flat_items(self, ty, v):
        """scalar initialisers of a (nested) array constant, row-major"""
        r = self.L.resolve(ty)
        if r[0] != 'array':
            return [self.const_init(ty, v)]
        n, el = r[1], r[2]
        if v[0] in ('zero', 'undef'):
            sub = self.flat_items(el, ('zero',))
            return sub * n
        if v[0] == 'cstr':
            return [str(b) for b in v[1]]
        out = []
        for et, ev in v[1]:
            out.extend(self.flat_items(et, ev))
        return out

    def fpconst(self, r, txt):
        import struct
        if txt.startswith('0x'):
            h = txt[2:]
            if h[0] in 'KLMHR':
                if h[0] == 'K':   # x86_fp80: 20 hex digits
                    raw = int(h[1:], 16)
                    sign = raw >> 79
                    exp = (raw >> 64) & 0x7fff
                    mant = raw & ((1 << 64) - 1)
                    if exp == 0 and mant == 0:
                        return '0.0L'
                    val = mant / float(1 << 63) * (2.0 ** (exp - 16383))
                    return repr(-val if sign else val) + 'L'
                raise ValueError('fp const ' + txt)
            d = struct.unpack('>d', bytes.fromhex(h.rjust(16, '0')))[0]
            if d != d:
                return '(0.0/0.0)'
            if d in (float('inf'), float('-inf')):
                return '(1.0/0.0)' if d > 0 else '(-1.0/0.0)'
            return d.hex()
        return txt

    def cexpr(self, v):
        _, op, args, extra = v
        if op in ('bitcast', 'addrspacecast'):
            return self.const_scalar(args[0][0], args[0][1])
        if op == 'getelementptr':
            base = self.const_scalar(args[0][0], args[0][1])
            off = self.gep_const_offset(extra, [a for a in args[1:]])
            return '((uint8_t*)%s + %d)' % (base, off)
        if op == 'ptrtoint':
            return '((%s)%s)' % (self.ctype(extra), self.const_scalar(args[0][0], args[0][1]))
        if op == 'inttoptr':
            return '((uint8_t*)%s)' % self.const_scalar(args[0][0], args[0][1])
        if op in ('add', 'sub'):
            return '(%s %s %s)' % (self.const_scalar(*args[0]), '+' if op == 'add' else '-', self.const_scalar(*args[1]))
        if op in ('trunc', 'zext'):
            return '((%s)%s)' % (self.ctype(extra), self.const_scalar(*args[0]))
        raise ValueError('cexpr %r' % (v,))

    def const_scalar(self, ty, v):
        return self.const_init(ty, v)

    def gep_const_offset(self, srcty, idxs):
        off = 0
        cur = srcty
        first = True
        for it, iv in idxs:
            assert iv[0] == 'int', iv
            i = iv[1]
            if first:
                off += i * self.L.size_align(cur)[0]
                first = False
                continue
            r = self.L.resolve(cur)
            if r[0] == 'struct':
                off += self.L.field_offset(r, i)
                cur = r[1][i]
            elif r[0] in ('array', 'vector'):
                off += i * self.L.size_align(r[2])[0]
                cur = r[2]
            else:
                raise ValueError('gep into %r' % (r,))
        return off

    # ---- reachability
    def need_global(self, name):
        if name in self.seen:
            return
        self.seen.add(name)
        g = self.m.globals.get(name)
        if g is not None and 'alias' in g:
            tv = g['alias'][1]
            while tv[0] == 'cexpr':
                tv = tv[2][0][1]
            self.alias_defs.append('#define %s %s' % (cname(name), cname(tv[1])))
            self.need_global(tv[1])
            return
        if name in self.m.funcs:
            self.used_funcs.append(name)
        elif name in self.m.decls:
            pass
        elif name in self.m.globals:
            self.used_globals.append(name)
        else:
            raise KeyError(name)

    def agg_defs_for_roots(self):
        return list(self.agg_defs)

    # ---- function prototypes
    def fn_sig(self, f, name=None):
        ret = self.ctype(f['ret'])
        ps = []
        for j, (pt, pn, pa) in enumerate(f['params']):
            ps.append('%s %s' % (self.ctype(pt), cname(pn) if pn else 'a%d' % j))
        if f['vararg']:
            ps.append('...')
        if not ps:
            ps = ['void']
        return '%s %s(%s)' % (ret, name or cname(f['name']), ', '.join(ps))

    def is_nounwind(self, attrs):
        for a in attrs:
            if a == 'nounwind':
                return True
            if a[0] == '#' and 'nounwind' in self.m.attrs.get(a, ()):
                return True
        return False

    def is_noreturn(self, attrs):
        for a in attrs:
            if a == 'noreturn':
                return True
            if a[0] == '#' and 'noreturn' in self.m.attrs.get(a, ()):
                return True
        return False

    # ---- main
    def run(self):
        for r in self.roots:
            self.need_global(r)
        bodies = []
        i = 0
        gi = 0
        gdefs = []
        while i < len(self.used_funcs) or gi < len(self.used_globals):
            while i < len(self.used_funcs):
                fn = self.used_funcs[i]
                i += 1
                if fn in getattr(self, 'cuts', ()):
                    f = self.m.funcs[fn]
                    rt = self.L.resolve(f['ret'])
                    ret = 'return;' if rt[0] == 'void' else ('return (%s){0};' % self.ctype(f['ret']) if rt[0] in ('struct', 'array', 'vector') else 'return 0;')
                    bodies.append('static ' + self.fn_sig(f) + ' { __CPROVER_assert(0, "SAFETY: cut function %s reached (declared unreachable for this harness)"); __CPROVER_assume(0); %s }' % (cname(fn), ret))
                    continue
                bodies.append(FnEmitter(self, self.m.funcs[fn]).emit())
            while gi < len(self.used_globals):
                g = self.m.globals[self.used_globals[gi]]
                gi += 1
                if g.get('init') is None and 'alias' not in g:
                    gdefs.insert(0, self.emit_global(g))
                else:
                    gdefs.append(self.emit_global(g))
        out = []
        out.append('/* generated by ll2c.py -- do not edit */')
        out.append('#include <stdint.h>\n#include <stddef.h>\n#include <string.h>\n#include <stdlib.h>\n#include <math.h>')
        out.append('extern int __exc_pending; extern uint8_t* __exc_obj; extern uint8_t* __exc_type;')
        out.append('int ll_eh_match(uint8_t* thrown, uint8_t* clause);')
        out.append('int ll_eh_typeid(uint8_t* ti);')
        out.extend(self.alias_defs)
        out.extend(self.agg_defs)
        # prototypes first: global initialisers (vtables) take addresses of functions
        protos = []
        for name in sorted(self.seen):
            if name in self.m.decls and name not in self.m.funcs and not name.startswith('@llvm.'):
                protos.append(self.fn_sig(self.m.decls[name], cname(name)) + ';')
        for fn in self.used_funcs:
            protos.append(('' if fn in self.roots else 'static ') + self.fn_sig(self.m.funcs[fn]) + ';')
        out.extend(protos)
        # global forward declarations
        for name in self.used_globals:
            g = self.m.globals[name]
            out.append(self.global_decl(g, True))
        out.extend(gdefs)
        out.append('#include "stubs.h"')
        out.extend(bodies)
        return '\n'.join(out) + '\n'

    def global_decl(self, g, extern):
        ct = self.ctype(g['type'])
        if g['init'] is None:
            return ''
        return 'static %s %s;' % (ct, cname(g['name']))

    def emit_global(self, g):
        if 'alias' in g:
            raise ValueError('alias ' + g['name'])
        ct = self.ctype(g['type'])
        if g['init'] is None:
            # external data: give it a zeroed body large enough (typeinfo vtables etc.)
            sz = max(self.L.size_align(g['type'])[0], 64)
            # external data (libstdc++ vtables, typeinfo, locale ids ...): a zeroed stand-in under CBMC; the REAL symbol in the native builds
            return ('#ifdef __CPROVER__\nuint8_t %s_store[%d] __attribute__((aligned(16))); /* external */\n#else\nextern uint8_t %s_store[] __asm__("%s");\n#endif\n'
                    '#define %s (*(%s*)%s_store)') % (cname(g['name']), sz, cname(g['name']), g['name'][1:].strip('"'), cname(g['name']), ct, cname(g['name']))
        init = self.const_init(g['type'], g['init'])
        return 'static %s %s = %s;' % (ct, cname(g['name']), init)


INT_BIN = {'add': '+', 'sub': '-', 'mul': '*', 'and': '&', 'or': '|', 'xor': '^'}
ICMP = {'eq': ('==', False), 'ne': ('!=', False), 'ugt': ('>', False), 'uge': ('>=', False), 'ult': ('<', False),
        'ule': ('<=', False), 'sgt': ('>', True), 'sge': ('>=', True), 'slt': ('<', True), 'sle': ('<=', True)}
FCMP = {'oeq': '==', 'ogt': '>', 'oge': '>=', 'olt': '<', 'ole': '<=', 'one': '!=', 'ueq': '==', 'ugt': '>', 'uge': '>=',
        'ult': '<', 'ule': '<=', 'une': '!='}


class FnEmitter:
    def __init__(self, E, f):
        self.E = E
        self.f = f
        self.L = E.L
        self.types = {}      # local name -> type
        self.decl = []
        self.code = []
        self.allocas = []
        self.blocks = []     # (label, [instr tokens])
        self.tmpn = 0

    def mask(self, ty, expr):
        ty = self.L.resolve(ty)
        if ty[0] == 'int' and ty[1] not in (8, 16, 32, 64, 128):
            return '((%s) & %s)' % (expr, hex((1 << ty[1]) - 1))
        return expr

    def val(self, ty, v):
        k = v[0]
        if k == 'local':
            return cname(v[1])
        r = self.L.resolve(ty)
        if k in ('zero', 'undef') and r[0] in ('struct', 'array', 'vector'):
            return '(%s){0}' % self.E.ctype(ty)
        if k in ('cstruct', 'carray', 'cvector'):
            return '(%s)%s' % (self.E.ctype(ty), self.E.const_init(ty, v))
        if k == 'fpconst':
            return '((%s)%s)' % (self.E.ctype(ty), self.E.const_init(ty, v))
        if k == 'int' and r[0] == 'int':
            return '((%s)%s)' % (self.E.ctype(ty), self.E.const_init(ty, v))
        return self.E.const_init(ty, v)

    def settype(self, name, ty):
        self.types[name] = ty

    def parse_blocks(self):
        cur = None
        label_re = re.compile(r'^("[^"]*"|[-a-zA-Z$._0-9]+):')
        firstlabel = None
        pending = None
        for line in self.f['body_lines']:
            s = line.strip()
            if not s or s[0] == ';':
                continue
            mm = label_re.match(s)
            if mm and not s.startswith('"') or (mm and s.startswith('"')):
                lab = mm.group(1)
                cur = ['%' + lab, []]
                self.blocks.append(cur)
                continue
            if cur is None:
                cur = [None, []]
                self.blocks.append(cur)
            # multi-line instructions (switch, invoke, landingpad)
            toks = tokenize(s)
            if pending is not None:
                pending.extend(toks)
                if self.complete(pending):
                    cur[1].append(pending)
                    pending = None
                continue
            if not self.complete(toks):
                pending = toks
                continue
            cur[1].append(toks)
        # entry block label: number of params (unnamed) -- find by predecessor refs; use %0-style guess
        if self.blocks and self.blocks[0][0] is None:
            # implicit label = next unnamed number
            nparams = sum(1 for (_, pn, _) in self.f['params'] if pn and re.fullmatch(r'%\d+', pn))
            self.blocks[0][0] = '%' + str(nparams)

    def complete(self, toks):
        op = toks[0] if len(toks) < 3 or toks[1] != '=' else toks[2]
        if op == 'switch':
            return ']' in toks
        if op == 'invoke':
            return 'unwind' in toks
        if op == 'landingpad':
            return True
        return True

    def emit(self):
        self.parse_blocks()
        # landingpad may be followed by clause lines: merge lines starting with catch/filter/cleanup into previous
        for b in self.blocks:
            merged = []
            for toks in b[1]:
                if toks[0] in ('catch', 'filter', 'cleanup') and merged:
                    merged[-1].extend(toks)
                elif toks[0] == 'to' and merged:
                    merged[-1].extend(toks)
                else:
                    merged.append(toks)
            b[1] = merged
        for (pt, pn, pa) in self.f['params']:
            if pn:
                self.types[pn] = pt
        # first pass: result types
        self.instrs = []
        for lab, ins in self.blocks:
            lst = []
            for toks in ins:
                lst.append(self.parse_instr(toks))
            self.instrs.append((lab, lst))
        # phi map: block -> list of (dest, ty, {pred: value})
        self.phis = {}
        for lab, lst in self.instrs:
            for I in lst:
                if I['op'] == 'phi':
                    self.phis.setdefault(lab, []).append(I)
        body = []
        for lab, lst in self.instrs:
            body.append('%s: ;' % self.lab(lab))
            for I in lst:
                self.cur_label = lab
                body.extend(self.emit_instr(I))
        hdr = ('' if self.f['name'] in self.E.roots else 'static ') + self.E.fn_sig(self.f) + ' {'
        decls = []
        for name, ty in self.types.items():
            if any(name == pn for (_, pn, _) in self.f['params']):
                continue
            r = self.L.resolve(ty)
            if r[0] == 'void':
                continue
            decls.append('  %s %s;' % (self.E.ctype(ty), cname(name)))
        decls.extend(self.decl)
        return '\n'.join([hdr] + decls + ['  ' + x for x in body] + ['}'])

    def lab(self, l):
        return 'L_' + re.sub(r'[^A-Za-z0-9_]', '_', l[1:].strip('"'))

    # ---- instruction parsing
    def parse_instr(self, toks):
        p = P(toks)
        I = {'dest': None}
        if len(toks) > 2 and toks[1] == '=':
            I['dest'] = p.next()
            p.next()
        # strip metadata suffix
        if '!' in toks or any(t.startswith('!') for t in toks):
            cut = None
            depth = 0
            for j, t in enumerate(toks):
                if t.startswith('!') and j > 0 and toks[j - 1] == ',':
                    cut = j - 1
                    break
            if cut is not None:
                toks = toks[:cut]
                p = P(toks)
                if I['dest']:
                    p.i = 2
        op = p.next()
        while op in ('tail', 'musttail', 'notail'):
            op = p.next()
        I['op'] = op
        d = I['dest']
        if op in INT_BIN or op in ('udiv', 'sdiv', 'urem', 'srem', 'shl', 'lshr', 'ashr', 'fadd', 'fsub', 'fmul', 'fdiv', 'frem'):
            flags = set()
            while p.peek() in ('nuw', 'nsw', 'exact', 'fast', 'nnan', 'ninf', 'nsz', 'arcp', 'contract', 'afn', 'reassoc'):
                flags.add(p.next())
            ty = parse_type(p)
            a = parse_value(p, ty)
            p.expect(',')
            b = parse_value(p, ty)
            I.update(ty=ty, a=a, b=b, flags=flags)
            self.settype(d, ty)
        elif op == 'fneg':
            while p.peek() in ('fast', 'nnan', 'ninf', 'nsz', 'arcp', 'contract', 'afn', 'reassoc'):
                p.next()
            ty = parse_type(p)
            I.update(ty=ty, a=parse_value(p, ty))
            self.settype(d, ty)
        elif op in ('icmp', 'fcmp'):
            while p.peek() in ('fast', 'nnan', 'ninf', 'nsz', 'arcp', 'contract', 'afn', 'reassoc'):
                p.next()
            pred = p.next()
            ty = parse_type(p)
            a = parse_value(p, ty)
            p.expect(',')
            b = parse_value(p, ty)
            I.update(pred=pred, ty=ty, a=a, b=b)
            self.settype(d, ('int', 1))
        elif op in ('trunc', 'zext', 'sext', 'bitcast', 'ptrtoint', 'inttoptr', 'sitofp', 'uitofp', 'fptosi', 'fptoui', 'fpext',
                    'fptrunc', 'addrspacecast'):
            ty = parse_type(p)
            a = parse_value(p, ty)
            p.expect('to')
            dst = parse_type(p)
            I.update(ty=ty, a=a, dst=dst)
            self.settype(d, dst)
        elif op == 'freeze':
            ty = parse_type(p)
            I.update(ty=ty, a=parse_value(p, ty))
            self.settype(d, ty)
        elif op == 'select':
            while p.peek() in ('fast', 'nnan', 'ninf', 'nsz', 'arcp', 'contract', 'afn', 'reassoc'):
                p.next()
            ct = parse_type(p)
            c = parse_value(p, ct)
            p.expect(',')
            ty = parse_type(p)
            a = parse_value(p, ty)
            p.expect(',')
            ty2 = parse_type(p)
            b = parse_value(p, ty2)
            I.update(c=c, ty=ty, a=a, b=b)
            self.settype(d, ty)
        elif op == 'alloca':
            p.accept('inalloca')
            ty = parse_type(p)
            cnt = None
            if p.accept(','):
                if p.peek() == 'align':
                    pass
                else:
                    ct = parse_type(p)
                    cnt = (ct, parse_value(p, ct))
            I.update(ty=ty, cnt=cnt)
            self.settype(d, ('ptr', ty))
        elif op == 'load':
            p.accept('atomic')
            p.accept('volatile')
            ty = parse_type(p)
            p.expect(',')
            pt = parse_type(p)
            a = parse_value(p, pt)
            I.update(ty=ty, a=a)
            self.settype(d, ty)
        elif op == 'store':
            p.accept('atomic')
            p.accept('volatile')
            ty = parse_type(p)
            v = parse_value(p, ty)
            p.expect(',')
            pt = parse_type(p)
            a = parse_value(p, pt)
            I.update(ty=ty, v=v, a=a)
        elif op == 'getelementptr':
            p.accept('inbounds')
            src = parse_type(p)
            p.expect(',')
            pt = parse_type(p)
            base = parse_value(p, pt)
            idx = []
            while p.accept(','):
                it = parse_type(p)
                idx.append((it, parse_value(p, it)))
            I.update(src=src, base=base, idx=idx)
            self.settype(d, ('ptr', ('int', 8)))
        elif op == 'phi':
            while p.peek() in ('fast', 'nnan', 'ninf', 'nsz', 'arcp', 'contract', 'afn', 'reassoc'):
                p.next()
            ty = parse_type(p)
            inc = []
            while True:
                p.expect('[')
                v = parse_value(p, ty)
                p.expect(',')
                lab = p.next()
                p.expect(']')
                inc.append((v, lab))
                if not p.accept(','):
                    break
            I.update(ty=ty, inc=inc)
            self.settype(d, ty)
        elif op == 'br':
            if p.peek() == 'label':
                p.next()
                I.update(cond=None, t=p.next())
            else:
                ct = parse_type(p)
                c = parse_value(p, ct)
                p.expect(','); p.expect('label')
                t = p.next()
                p.expect(','); p.expect('label')
                e = p.next()
                I.update(cond=c, t=t, e=e)
        elif op == 'switch':
            ty = parse_type(p)
            v = parse_value(p, ty)
            p.expect(','); p.expect('label')
            dflt = p.next()
            p.expect('[')
            cases = []
            while not p.accept(']'):
                ct = parse_type(p)
                cv = parse_value(p, ct)
                p.expect(','); p.expect('label')
                cases.append((cv, p.next()))
            I.update(ty=ty, v=v, dflt=dflt, cases=cases)
        elif op == 'ret':
            ty = parse_type(p)
            if ty[0] == 'void':
                I.update(ty=ty, v=None)
            else:
                I.update(ty=ty, v=parse_value(p, ty))
        elif op in ('call', 'invoke'):
            while p.peek() in LINKAGE or p.peek() in PARAM_ATTRS or p.peek() in ('fast', 'nnan', 'ninf', 'nsz', 'arcp', 'contract', 'afn', 'reassoc', 'align', 'dereferenceable', 'dereferenceable_or_null'):
                t = p.next()
                if t in ('align', 'dereferenceable', 'dereferenceable_or_null'):
                    if p.accept('('):
                        p.next(); p.expect(')')
                    else:
                        p.next()
            rty = parse_type_nofn(p)
            fty = None
            if rty[0] == 'ptr' and self.L.resolve(rty[1])[0] == 'func' and p.peek() != '(':
                fty = rty[1]
                rty_real = fty[1]
            elif rty[0] == 'func':
                fty = rty
                rty_real = fty[1]
            else:
                rty_real = rty
            # callee might be preceded by full function type for varargs: "i32 (i8*, ...) @printf"
            if p.peek() == '(' and fty is None:
                # this was a function type spelled out: ret (params) callee
                q = P(p.t)
                q.i = p.i
                q.next()
                params = []
                va = False
                if not q.accept(')'):
                    while True:
                        if q.accept('...'):
                            va = True
                        else:
                            params.append(parse_type(q))
                        if q.accept(')'):
                            break
                        q.expect(',')
                while q.peek() == '*':
                    q.next()
                p.i = q.i
                fty = ('func', rty, tuple(params), va)
                rty_real = rty
            callee = parse_value(p, ('ptr', ('int', 8)))
            p.expect('(')
            args = []
            if not p.accept(')'):
                while True:
                    at = parse_type(p)
                    aa = skip_param_attrs(p)
                    av = parse_value(p, at)
                    args.append((at, av, aa))
                    if p.accept(')'):
                        break
                    p.expect(',')
            attrs = set()
            normal = unwind = None
            while not p.eof():
                t = p.next()
                if t[0] == '#':
                    attrs.add(t)
                elif t in FN_ATTR_WORDS:
                    attrs.add(t)
                elif t == 'to':
                    p.expect('label')
                    normal = p.next()
                elif t == 'unwind':
                    p.expect('label')
                    unwind = p.next()
                elif t == '[':
                    # operand bundles: skip
                    depth = 1
                    while depth:
                        x = p.next()
                        depth += (x == '[') - (x == ']')
            I.update(rty=rty_real, fty=fty, callee=callee, args=args, attrs=attrs, normal=normal, unwind=unwind)
            if d:
                self.settype(d, rty_real)
        elif op == 'landingpad':
            ty = parse_type(p)
            clauses = []
            cleanup = False
            while not p.eof():
                t = p.next()
                if t == 'cleanup':
                    cleanup = True
                elif t == 'catch':
                    ct = parse_type(p)
                    clauses.append(('catch', parse_value(p, ct)))
                elif t == 'filter':
                    ct = parse_type(p)
                    clauses.append(('filter', parse_value(p, ct)))
            I.update(ty=ty, clauses=clauses, cleanup=cleanup)
            self.settype(d, ty)
        elif op == 'resume':
            ty = parse_type(p)
            I.update(ty=ty, v=parse_value(p, ty))
        elif op == 'unreachable':
            pass
        elif op == 'extractvalue':
            ty = parse_type(p)
            a = parse_value(p, ty)
            idx = []
            while p.accept(','):
                idx.append(int(p.next()))
            I.update(ty=ty, a=a, idx=idx)
            self.settype(d, self.agg_elem(ty, idx))
        elif op == 'insertvalue':
            ty = parse_type(p)
            a = parse_value(p, ty)
            p.expect(',')
            et = parse_type(p)
            ev = parse_value(p, et)
            idx = []
            while p.accept(','):
                idx.append(int(p.next()))
            I.update(ty=ty, a=a, et=et, ev=ev, idx=idx)
            self.settype(d, ty)
        elif op in ('fence',):
            pass
        else:
            raise SyntaxError('instr %s: %s' % (op, ' '.join(toks)[:200]))
        return I

    def agg_elem(self, ty, idx):
        for i in idx:
            r = self.L.resolve(ty)
            if r[0] == 'struct':
                ty = r[1][i]
            else:
                ty = r[2]
        return ty

    def agg_path(self, ty, idx):
        s = ''
        for i in idx:
            r = self.L.resolve(ty)
            if r[0] == 'struct':
                s += '.f%d' % i
                ty = r[1][i]
            else:
                s += '.a[%d]' % i
                ty = r[2]
        return s

    # ---- phi copies for an edge cur_label -> target
    def edge(self, target):
        out = []
        phis = self.phis.get(target, [])
        if phis:
            tmps = []
            for I in phis:
                v = None
                for (pv, lab) in I['inc']:
                    if lab == self.cur_label:
                        v = pv
                        break
                if v is None:
                    raise KeyError('phi in %s has no incoming for %s' % (target, self.cur_label))
                self.tmpn += 1
                tn = 'phi_t%d' % self.tmpn
                self.decl.append('  %s %s;' % (self.E.ctype(I['ty']), tn))
                out.append('%s = %s;' % (tn, self.val(I['ty'], v)))
                tmps.append((cname(I['dest']), tn))
            for d, tn in tmps:
                out.append('%s = %s;' % (d, tn))
        out.append('goto %s;' % self.lab(target))
        return out

    def zero_ret(self):
        rt = self.L.resolve(self.f['ret'])
        if rt[0] == 'void':
            return 'return;'
        if rt[0] in ('struct', 'array', 'vector'):
            return 'return (%s){0};' % self.E.ctype(self.f['ret'])
        return 'return 0;'

    # ---- instruction emission
    def emit_instr(self, I):
        op = I['op']
        E = self.E
        d = cname(I['dest']) if I['dest'] else None
        if op in INT_BIN:
            ty = self.L.resolve(I['ty'])
            a = self.val(I['ty'], I['a'])
            b = self.val(I['ty'], I['b'])
            ct = E.ctype(I['ty'])
            if op in ('add', 'sub', 'mul') and 'nsw' in I['flags'] and ty[0] == 'int' and ty[1] in (32, 64):
                st = E.sctype(ty)
                return ['%s = (%s)((%s)%s %s (%s)%s);' % (d, ct, st, a, INT_BIN[op], st, b)]
            return ['%s = %s;' % (d, self.mask(ty, '(%s)(%s %s %s)' % (ct, a, INT_BIN[op], b)))]
        if op in ('udiv', 'urem'):
            return ['%s = (%s)(%s %s %s);' % (d, E.ctype(I['ty']), self.val(I['ty'], I['a']), '/' if op == 'udiv' else '%', self.val(I['ty'], I['b']))]
        if op in ('sdiv', 'srem'):
            st = E.sctype(self.L.resolve(I['ty']))
            return ['%s = (%s)((%s)%s %s (%s)%s);' % (d, E.ctype(I['ty']), st, self.sx(I['ty'], I['a']), '/' if op == 'sdiv' else '%', st, self.sx(I['ty'], I['b']))]
        if op == 'shl':
            ty = self.L.resolve(I['ty'])
            return ['%s = %s;' % (d, self.mask(ty, '(%s)(%s << %s)' % (E.ctype(I['ty']), self.val(I['ty'], I['a']), self.val(I['ty'], I['b']))))]
        if op == 'lshr':
            return ['%s = (%s)(%s >> %s);' % (d, E.ctype(I['ty']), self.val(I['ty'], I['a']), self.val(I['ty'], I['b']))]
        if op == 'ashr':
            ty = self.L.resolve(I['ty'])
            return ['%s = %s;' % (d, self.mask(ty, '(%s)(%s >> %s)' % (E.ctype(I['ty']), self.sx(I['ty'], I['a']), self.val(I['ty'], I['b']))))]
        if op in ('fadd', 'fsub', 'fmul', 'fdiv'):
            o = {'fadd': '+', 'fsub': '-', 'fmul': '*', 'fdiv': '/'}[op]
            return ['%s = %s %s %s;' % (d, self.val(I['ty'], I['a']), o, self.val(I['ty'], I['b']))]
        if op == 'frem':
            return ['%s = fmod(%s, %s);' % (d, self.val(I['ty'], I['a']), self.val(I['ty'], I['b']))]
        if op == 'fneg':
            return ['%s = -%s;' % (d, self.val(I['ty'], I['a']))]
        if op == 'icmp':
            ty = self.L.resolve(I['ty'])
            o, signed = ICMP[I['pred']]
            if ty[0] == 'ptr':
                a = self.val(I['ty'], I['a'])
                b = self.val(I['ty'], I['b'])
                if I['pred'] in ('eq', 'ne'):
                    return ['%s = (%s %s %s);' % (d, a, o, b)]
                return ['%s = ((uintptr_t)%s %s (uintptr_t)%s);' % (d, a, o, b)]
            if signed:
                st = E.sctype(ty)
                return ['%s = ((%s)%s %s (%s)%s);' % (d, st, self.sx(I['ty'], I['a']), o, st, self.sx(I['ty'], I['b']))]
            return ['%s = (%s %s %s);' % (d, self.val(I['ty'], I['a']), o, self.val(I['ty'], I['b']))]
        if op == 'fcmp':
            pr = I['pred']
            a = self.val(I['ty'], I['a'])
            b = self.val(I['ty'], I['b'])
            if pr == 'ord':
                return ['%s = !(isnan(%s) || isnan(%s));' % (d, a, b)]
            if pr == 'uno':
                return ['%s = (isnan(%s) || isnan(%s));' % (d, a, b)]
            if pr == 'true':
                return ['%s = 1;' % d]
            if pr == 'false':
                return ['%s = 0;' % d]
            if pr[0] == 'u':
                return ['%s = (isnan(%s) || isnan(%s) || (%s %s %s));' % (d, a, b, a, FCMP[pr], b)]
            return ['%s = (%s %s %s);' % (d, a, FCMP[pr], b)]
        if op in ('trunc', 'zext'):
            return ['%s = %s;' % (d, self.mask(I['dst'], '(%s)%s' % (E.ctype(I['dst']), self.val(I['ty'], I['a']))))]
        if op == 'sext':
            return ['%s = %s;' % (d, self.mask(I['dst'], '(%s)(%s)%s' % (E.ctype(I['dst']), E.sctype(self.L.resolve(I['dst'])), self.sx(I['ty'], I['a']))))]
        if op in ('bitcast', 'addrspacecast'):
            st = self.L.resolve(I['ty'])
            dt = self.L.resolve(I['dst'])
            if st[0] == 'ptr' and dt[0] == 'ptr':
                return ['%s = %s;' % (d, self.val(I['ty'], I['a']))]
            self.tmpn += 1
            t = 'bc_t%d' % self.tmpn
            self.decl.append('  %s %s;' % (E.ctype(I['ty']), t))
            return ['%s = %s;' % (t, self.val(I['ty'], I['a'])), 'memcpy(&%s, &%s, sizeof(%s));' % (d, t, d)]
        if op == 'ptrtoint':
            return ['%s = (%s)(uintptr_t)%s;' % (d, E.ctype(I['dst']), self.val(I['ty'], I['a']))]
        if op == 'inttoptr':
            return ['%s = (uint8_t*)(uintptr_t)%s;' % (d, self.val(I['ty'], I['a']))]
        if op in ('sitofp',):
            return ['%s = (%s)(%s)%s;' % (d, E.ctype(I['dst']), E.sctype(self.L.resolve(I['ty'])), self.sx(I['ty'], I['a']))]
        if op in ('uitofp', 'fpext', 'fptrunc'):
            return ['%s = (%s)%s;' % (d, E.ctype(I['dst']), self.val(I['ty'], I['a']))]
        if op == 'fptosi':
            return ['%s = %s;' % (d, self.mask(I['dst'], '(%s)(%s)%s' % (E.ctype(I['dst']), E.sctype(self.L.resolve(I['dst'])), self.val(I['ty'], I['a']))))]
        if op == 'fptoui':
            return ['%s = (%s)%s;' % (d, E.ctype(I['dst']), self.val(I['ty'], I['a']))]
        if op == 'freeze':
            return ['%s = %s;' % (d, self.val(I['ty'], I['a']))]
        if op == 'select':
            return ['%s = %s ? %s : %s;' % (d, self.val(('int', 1), I['c']), self.val(I['ty'], I['a']), self.val(I['ty'], I['b']))]
        if op == 'alloca':
            sz, al = self.L.size_align(I['ty'])
            if I['cnt'] is not None:
                cv = I['cnt'][1]
                if cv[0] != 'int':
                    raise ValueError('dynamic alloca')
                sz *= cv[1]
            if I['cnt'] is None and self.L.resolve(I['ty'])[0] != 'opaque' and sz > 0:
                self.decl.append('  %s %s_buf;' % (E.ctype(I['ty']), d))
                return ['%s = (uint8_t*)&%s_buf;' % (d, d)]
            self.decl.append('  uint8_t %s_buf[%d] __attribute__((aligned(%d)));' % (d, max(sz, 1), max(al, 1)))
            return ['%s = %s_buf;' % (d, d)]
        if op == 'load':
            r = self.L.resolve(I['ty'])
            return ['%s = %s;' % (d, self.mask(r, '*(%s*)%s' % (E.ctype(I['ty']), self.val(('ptr', I['ty']), I['a']))))]
        if op == 'store':
            return ['*(%s*)%s = %s;' % (E.ctype(I['ty']), self.val(('ptr', I['ty']), I['a']), self.val(I['ty'], I['v']))]
        if op == 'getelementptr':
            return ['%s = %s;' % (d, self.gep(I))]
        if op == 'phi':
            return []
        if op == 'br':
            if I['cond'] is None:
                return self.edge(I['t'])
            out = ['if (%s) {' % self.val(('int', 1), I['cond'])]
            out.extend('  ' + x for x in self.edge(I['t']))
            out.append('} else {')
            out.extend('  ' + x for x in self.edge(I['e']))
            out.append('}')
            return out
        if op == 'switch':
            out = ['switch (%s) {' % self.val(I['ty'], I['v'])]
            for cv, lab in I['cases']:
                out.append('case %s: {' % self.val(I['ty'], cv))
                out.extend('  ' + x for x in self.edge(lab))
                out.append('}')
            out.append('default: {')
            out.extend('  ' + x for x in self.edge(I['dflt']))
            out.append('} }')
            return out
        if op == 'ret':
            if I['v'] is None:
                return ['return;']
            return ['return %s;' % self.val(I['ty'], I['v'])]
        if op == 'unreachable':
            return ['LL_UNREACHABLE();', self.zero_ret()]
        if op in ('call', 'invoke'):
            return self.emit_call(I)
        if op == 'landingpad':
            # value = { exception object, selector }
            out = []
            sel = '0'
            conds = []
            for kind, cv in I['clauses']:
                if kind != 'catch':
                    continue
                if cv[0] == 'null':
                    conds.append(('1', '1'))
                else:
                    c = self.val(('ptr', ('int', 8)), cv)
                    conds.append(('ll_eh_match(__exc_type, %s)' % c, 'll_eh_typeid(%s)' % c))
            expr = '0'
            for c, s in reversed(conds):
                expr = '(%s ? %s : %s)' % (c, s, expr)
            out.append('%s.f0 = __exc_obj; %s.f1 = (uint32_t)%s;' % (d, d, expr))
            return out
        if op == 'resume':
            return [self.zero_ret()]
        if op == 'extractvalue':
            return ['%s = %s%s;' % (d, self.val(I['ty'], I['a']), self.agg_path(I['ty'], I['idx']))]
        if op == 'insertvalue':
            return ['%s = %s;' % (d, self.val(I['ty'], I['a'])), '%s%s = %s;' % (d, self.agg_path(I['ty'], I['idx']), self.val(I['et'], I['ev']))]
        if op == 'fence':
            return []
        raise ValueError('emit ' + op)

    def sx(self, ty, v):
        """value as properly sign-extended signed C expression"""
        r = self.L.resolve(ty)
        e = self.val(ty, v)
        n = r[1]
        if n in (8, 16, 32, 64, 128):
            return '(%s)%s' % (self.E.sctype(r), e)
        # odd width: shift up and down
        w = 8 if n <= 8 else 16 if n <= 16 else 32 if n <= 32 else 64
        st = self.E.sctype(r)
        return '((%s)((%s)(%s << %d)) >> %d)' % (st, st, e, w - n, w - n)

    def gep(self, I):
        cur = I['src']
        base = self.val(('ptr', cur), I['base'])
        const = 0
        dyn = []
        first = True
        for it, iv in I['idx']:
            if first:
                sz = self.L.size_align(cur)[0]
                first = False
                if iv[0] == 'int':
                    const += iv[1] * sz
                else:
                    dyn.append('(int64_t)%s * %d' % (self.sx(it, iv), sz))
                continue
            r = self.L.resolve(cur)
            if r[0] == 'struct':
                assert iv[0] == 'int'
                const += self.L.field_offset(r, iv[1])
                cur = r[1][iv[1]]
            else:
                sz = self.L.size_align(r[2])[0]
                if iv[0] == 'int':
                    const += iv[1] * sz
                else:
                    dyn.append('(int64_t)%s * %d' % (self.sx(it, iv), sz))
                cur = r[2]
        terms = dyn + ([str(const)] if const or not dyn else [])
        return '(%s + (%s))' % (base, ' + '.join(terms))

    def emit_call(self, I):
        E = self.E
        callee = I['callee']
        d = cname(I['dest']) if I['dest'] else None
        out = []
        name = callee[1] if callee[0] == 'global' else None
        argv = [self.val(at, av) for (at, av, aa) in I['args']]
        for (at, av, aa) in I['args']:
            if 'byval' in aa:
                raise ValueError('byval arg in call to %s' % name)
        rvoid = self.L.resolve(I['rty'])[0] == 'void'
        call = None
        if name and name.startswith('@llvm.'):
            r = self.intrinsic(name, I, argv, d)
            if r is not None:
                out.extend(r)
                if I['op'] == 'invoke':
                    out.extend(self.edge(I['normal']))
                return out
        if name:
            E.need_global(name)
            call = '%s(%s)' % (cname(name), ', '.join(argv))
            fdef = self.E.m.funcs.get(name) or self.E.m.decls.get(name)
            callee_nounwind = E.is_nounwind(fdef['attrs']) if fdef else False
            callee_noreturn = E.is_noreturn(fdef['attrs']) if fdef else False
        else:
            # indirect
            fty = I['fty']
            if fty is None:
                ptys = [E.ctype(at) for (at, av, aa) in I['args']]
                va = False
            else:
                ptys = [E.ctype(t) for t in fty[2]]
                va = fty[3]
            sig = '%s (*)(%s%s)' % (E.ctype(I['rty']), ', '.join(ptys) if ptys else 'void', ', ...' if va else '')
            call = '((%s)%s)(%s)' % (sig, self.val(('ptr', ('int', 8)), callee), ', '.join(argv))
            callee_nounwind = False
            callee_noreturn = False
        if rvoid or d is None:
            out.append(call + ';')
        else:
            out.append('%s = %s;' % (d, call))
        nounwind = callee_nounwind or E.is_nounwind(I['attrs'])
        if I['op'] == 'invoke':
            out.append('if (__exc_pending) {')
            out.extend('  ' + x for x in self.edge(I['unwind']))
            out.append('}')
            out.extend(self.edge(I['normal']))
        else:
            if not nounwind:
                out.append('if (__exc_pending) %s' % self.zero_ret())
        return out

    def intrinsic(self, name, I, argv, d):
        n = name[6:]
        E = self.E
        if n.startswith('lifetime.') or n.startswith('experimental.noalias') or n.startswith('dbg.') or n == 'assume' or n.startswith('invariant.') or n.startswith('prefetch'):
            return []
        if n.startswith('memcpy.') or n.startswith('memmove.'):
            const_n = I['args'][2][1][0] == 'int'
            if not const_n:
                # symbolic length: CBMC's built-in model allocates a symbolic-size array (solver blow-up); use a byte loop instead
                return ['ll_memmove_dyn(%s, %s, %s);' % (argv[0], argv[1], argv[2])]
            cn = I['args'][2][1][1]
            if 0 < cn <= 24 and not __import__('os').environ.get('LL2C_NO_UNROLL'):
                # small constant length: explicit byte moves (read all, then write all = memmove semantics); CBMC's built-in
                # memcpy on a destination with a symbolic offset is far more expensive
                self.tmpn += 1
                t = self.tmpn
                out = ['{ uint8_t* d_%d = %s; uint8_t* s_%d = %s;' % (t, argv[0], t, argv[1])]
                out.append(' '.join('uint8_t t_%d_%d = s_%d[%d];' % (t, k, t, k) for k in range(cn)))
                out.append(' '.join('d_%d[%d] = t_%d_%d;' % (t, k, t, k) for k in range(cn)) + ' }')
                return out
            return ['memmove(%s, %s, %s);' % (argv[0], argv[1], argv[2])] if n.startswith('memmove.') else ['memcpy(%s, %s, %s);' % (argv[0], argv[1], argv[2])]
        if n.startswith('memset.'):
            if I['args'][2][1][0] != 'int':
                return ['ll_memset_dyn(%s, %s, %s);' % (argv[0], argv[1], argv[2])]
            return ['memset(%s, %s, %s);' % (argv[0], argv[1], argv[2])]
        if n.startswith('abs.'):
            st = E.sctype(self.L.resolve(I['rty']))
            return ['%s = (%s)((%s)%s < 0 ? -(%s)%s : (%s)%s);' % (d, E.ctype(I['rty']), st, argv[0], st, argv[0], st, argv[0])]
        for fn, o, signed in (('smin.', '<', True), ('smax.', '>', True), ('umin.', '<', False), ('umax.', '>', False)):
            if n.startswith(fn):
                if signed:
                    st = E.sctype(self.L.resolve(I['rty']))
                    return ['%s = ((%s)%s %s (%s)%s) ? %s : %s;' % (d, st, argv[0], o, st, argv[1], argv[0], argv[1])]
                return ['%s = (%s %s %s) ? %s : %s;' % (d, argv[0], o, argv[1], argv[0], argv[1])]
        if n == 'eh.typeid.for':
            return ['%s = (uint32_t)ll_eh_typeid(%s);' % (d, argv[0])]
        if n.startswith('expect.'):
            return ['%s = %s;' % (d, argv[0])]
        if n.startswith('fabs.'):
            return ['%s = fabs(%s);' % (d, argv[0])]
        if n.startswith('fmuladd.'):
            return ['%s = %s * %s + %s;' % (d, argv[0], argv[1], argv[2])]
        if n.startswith('objectsize.'):
            return ['%s = (%s)-1;' % (d, E.ctype(I['rty']))]
        if n.startswith('ctpop.') or n.startswith('ctlz.') or n.startswith('cttz.') or n.startswith('bswap.'):
            w = self.L.resolve(I['rty'])[1]
            return ['%s = ll_%s%d(%s);' % (d, n.split('.')[0], w, argv[0])]
        m = re.match(r'(u|s)(add|sub|mul)\.with\.overflow\.i(\d+)', n)
        if m:
            sg, o, w = m.group(1), m.group(2), int(m.group(3))
            ct = E.ctype(('int', w))
            cty = ct if sg == 'u' else E.sctype(('int', w))
            return ['{ %s r_; %s.f1 = __builtin_%s_overflow((%s)%s, (%s)%s, &r_); %s.f0 = (%s)r_; }' % (cty, d, o, cty, argv[0], cty, argv[1], d, ct)]
        m2 = re.match(r'fsh([lr])\.i(\d+)', n)
        if m2:
            w = int(m2.group(2)); ct = E.ctype(('int', w))
            sh = '((%s) %% %d)' % (argv[2], w)
            if m2.group(1) == 'l':
                return ['%s = (%s)(%s == 0 ? %s : (((%s)%s << %s) | ((%s)%s >> (%d - %s))));' % (d, ct, sh, argv[0], ct, argv[0], sh, ct, argv[1], w, sh)]
            return ['%s = (%s)(%s == 0 ? %s : (((%s)%s >> %s) | ((%s)%s << (%d - %s))));' % (d, ct, sh, argv[1], ct, argv[1], sh, ct, argv[0], w, sh)]
        if n == 'trap':
            return ['LL_TRAP();']
        if n.startswith('stacksave') or n.startswith('stackrestore'):
            return ['%s = 0;' % d] if d else []
        raise ValueError('intrinsic ' + name)


def main():
    src = open(sys.argv[1]).read()
    m = parse_module(src)
    for dn in m.decls:
        if dn not in m.funcs and re.fullmatch(r'@[a-z][a-z0-9_]*', dn) and not dn.startswith('@llvm'):
            AUTO_LL.add(dn[1:])
    argv = sys.argv[3:]
    exports = [a[7:] for a in argv if a.startswith('--type=')]
    cuts = set('@' + a[6:] for a in argv if a.startswith('--cut='))
    roots = ['@' + r if not r.startswith('@') else r for r in argv if not r.startswith('--')]
    e = Emitter(m, roots)
    e.cuts = cuts
    for ex in exports:
        llname, alias = ex.split('=')
        ct = e.ctype(('named', llname))
        e.agg_defs.append('typedef %s %s;' % (ct, alias))
    c = e.run()
    open(sys.argv[2], 'w').write(c)
    with open(sys.argv[2] + '.roots.h', 'w') as fh:
        fh.write('/* prototypes of the root functions (C view of the C++ ABI), generated by ll2c.py */\n')
        fh.write('\n'.join(e.agg_defs_for_roots()) + '\n')
        for r in roots:
            fh.write(e.fn_sig(m.funcs[r]) + ';\n')
    ext = sorted(n for n in e.seen if n in m.decls and n not in m.funcs and not n.startswith('@llvm.'))
    extdata = sorted(n[1:] for n in e.used_globals if m.globals[n].get('init') is None and 'alias' not in m.globals[n])
    sys.stderr.write('emitted %d functions, %d globals; externals: %s\n' % (len(e.used_funcs), len(e.used_globals), ' '.join(x[1:] for x in ext)))
    sys.stderr.write('external-data: %s\n' % ' '.join(extdata))


if __name__ == '__main__':
    main()
