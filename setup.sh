#!/bin/sh
# nothing to build: the framework is Python + C headers; verify the tool chain it drives is present
set -e
cd "$(dirname "$0")"
for t in clang++-14 llvm-link-14 llvm-dis-14 cbmc z3 gcc g++ python3; do command -v $t >/dev/null || { echo "missing tool: $t"; exit 1; }; done
cbmc --version; z3 --version
mkdir -p .work evidence replays
echo setup ok
